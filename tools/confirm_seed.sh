#!/bin/sh
# tools/confirm_seed.sh <worktree> <seed-id> <property>
# Independently confirm a seeded change produced in a scratch worktree:
#   changed tree : builds, test-suite counts identical to the baseline, demo fails (C and/or PURE_PYTHON)
#   pristine tree: demo passes in both modes
# On success stores /verif/seeded/<seed-id>/{patch.diff,demo.py,confirm.log} and prints CONFIRMED.
WT=$1; SID=$2; PROP=$3
T=/verif/tools/wt.sh
OUT=/verif/seeded/$SID
[ -d "$WT" ] || { echo "no worktree $WT"; exit 2; }
[ -f "$WT/demo.py" ] || { echo "no demo.py"; exit 2; }
LOG=$(mktemp)
git -C "$WT" diff > "$LOG.patch"
[ -s "$LOG.patch" ] || { echo "empty diff"; exit 2; }
if git -C "$WT" diff --name-only | grep -q "/tests/"; then echo "touches tests"; exit 2; fi
{
echo "## changed tree"
$T "$WT" build
echo "# test suite:"; $T "$WT" test | tail -1
PYTHONHASHSEED=0 timeout 300 $T "$WT" py demo.py >/dev/null 2>"$LOG.err"; RC_C=$?; echo "demo (C build) rc=$RC_C: $(tail -1 "$LOG.err" | cut -c1-300)"
PYTHONHASHSEED=0 PURE=1 timeout 300 $T "$WT" py demo.py >/dev/null 2>"$LOG.err"; RC_P=$?; echo "demo (PURE_PYTHON) rc=$RC_P: $(tail -1 "$LOG.err" | cut -c1-300)"
echo "## pristine tree"
git -C "$WT" apply -R "$LOG.patch"   # not `git stash`: the stash is shared by all worktrees of the repository
$T "$WT" build
PYTHONHASHSEED=0 timeout 300 $T "$WT" py demo.py >/dev/null 2>&1; RC0_C=$?; echo "demo (C build) rc=$RC0_C"
PYTHONHASHSEED=0 PURE=1 timeout 300 $T "$WT" py demo.py >/dev/null 2>&1; RC0_P=$?; echo "demo (PURE_PYTHON) rc=$RC0_P"
git -C "$WT" apply "$LOG.patch"
echo "RC changed: c=$RC_C py=$RC_P ; pristine: c=$RC0_C py=$RC0_P"
} > "$LOG" 2>&1
cat "$LOG"
SUITE_OK=$(grep -c "12 failed, 1350 passed, 7 skipped" "$LOG")
RCS=$(grep "^RC changed" "$LOG")
case "$RCS" in
  *"pristine: c=0 py=0"*) PRISTINE_OK=1;;
  *) PRISTINE_OK=0;;
esac
case "$RCS" in
  "RC changed: c=0 py=0 "*) FAILS=0;;
  *) FAILS=1;;
esac
if [ "$SUITE_OK" = 1 ] && [ "$PRISTINE_OK" = 1 ] && [ "$FAILS" = 1 ]; then
  mkdir -p "$OUT"
  cp "$LOG.patch" "$OUT/patch.diff"; cp "$WT/demo.py" "$OUT/demo.py"; cp "$LOG" "$OUT/confirm.log"
  echo "CONFIRMED $SID ($PROP) -> $OUT"
  RC=0
else
  echo "NOT CONFIRMED $SID: suite_ok=$SUITE_OK pristine_ok=$PRISTINE_OK fails=$FAILS"
  RC=1
fi
rm -f "$LOG" "$LOG.patch" "$LOG.err"
exit $RC
