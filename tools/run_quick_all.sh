#!/bin/sh
# Run every quick tier once against /repo (refreshes evidence/*.json); prints one line per property.
cd "$(dirname "$0")/.." || exit 2
for P in C01 C02 C03 C04 C05 C06 C07 C08 C09 C10 C11 C12 C13 C14 C15 C16 C17 C18 C19 C20; do
  S=$(date +%s); OUT=$(bin/check $P --tier quick 2>&1); RC=$?; E=$(date +%s)
  echo "=== $P quick rc=$RC wall=$((E-S))s $(echo "$OUT" | grep -c KNOWN-FINDING) known"
  echo "$OUT" | grep -E "VIOLATION|HARNESS-ERROR|exhaustive=False" | cut -c1-200
done
