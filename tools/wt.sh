#!/bin/sh
# tools/wt.sh <worktree> build|test|py <file> [args...]
# Run something against a scratch worktree of zope.interface instead of /repo.
#   build : compile the C accelerator in place in <worktree>/src
#   test  : the pinned test suite (same pytest flags as BASELINE.json) on <worktree>, prints the summary line
#   py    : run a python file with zope.interface imported from <worktree>/src (PURE=1 -> PURE_PYTHON=1)
# The `zope` namespace is wired by a -nspkg.pth in /venv, so PYTHONPATH is not enough: a sitecustomize
# directory prepends <worktree>/src/zope to zope.__path__.
WT=$(readlink -f "$1"); CMD=$2; shift 2
SC=$(mktemp -d /tmp/wtsite.XXXXXX)
trap 'rm -rf "$SC"' EXIT INT TERM
cat > "$SC/sitecustomize.py" <<EOF
import os, sys
_wt = os.environ.get('VP_WT')
if _wt:
    sys.path.insert(0, os.path.join(_wt, 'src'))
    try:
        import zope
        _p = os.path.join(_wt, 'src', 'zope')
        _l = [x for x in zope.__path__ if x != _p]
        zope.__path__[:] = [_p] + _l
    except Exception:
        pass
EOF
export VP_WT="$WT" PYTHONPATH="$SC" PYTHONDONTWRITEBYTECODE=1
[ -n "$PURE" ] && export PURE_PYTHON=1
case "$CMD" in
  build)
    cd "$WT" || exit 2
    INC=$(/venv/bin/python -c 'import sysconfig; print(sysconfig.get_paths()["include"])')
    SUF=$(/venv/bin/python -c 'import sysconfig; print(sysconfig.get_config_var("EXT_SUFFIX"))')
    rm -f src/zope/interface/_zope_interface_coptimizations*.so
    gcc -shared -fPIC -O1 -g0 -fno-strict-aliasing -I "$INC" src/zope/interface/_zope_interface_coptimizations.c \
        -o "src/zope/interface/_zope_interface_coptimizations$SUF" 2>&1 | tail -5
    ;;
  test)
    cd "$WT" || exit 2
    /venv/bin/python -m pytest -ra -q -p no:cacheprovider --timeout=900 --continue-on-collection-errors 2>&1 | tail -1
    ;;
  py)
    cd "$WT" || exit 2
    /venv/bin/python "$@"
    ;;
  *) echo "usage: wt.sh <worktree> build|test|py <file>"; exit 2;;
esac
