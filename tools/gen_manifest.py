#!/usr/bin/env python3
"""Regenerate MANIFEST.json from props/*.py metadata (PROP dict in each module)."""
import json
import os
import re
import sys

ROOT = os.path.dirname(os.path.dirname(os.path.abspath(__file__)))
ALL = ['C%02d' % i for i in range(1, 21)]


def meta(prop):
    path = os.path.join(ROOT, 'props', prop + '.py')
    if not os.path.exists(path):
        return None
    src = open(path).read()
    m = re.search(r'^MANIFEST = (\{.*?^\})', src, re.S | re.M)
    if not m:
        return None
    return eval(m.group(1))


def main():
    checks, na = [], []
    na_reasons = json.load(open(os.path.join(ROOT, 'tools', 'not_applicable.json')))
    for p in ALL:
        md = meta(p)
        if md is None:
            na.append(dict(property_id=p, reason=na_reasons.get(p, 'check not built yet')))
            continue
        checks.append(dict(
            property_id=p,
            quick_cmd='bin/check %s --tier quick' % p,
            thorough_cmd='bin/check %s --tier thorough' % p,
            evidence_file='evidence/%s.json' % p,
            replay_cmd_template='bin/check %s --replay {path}' % p,
            engine=md.get('engine', 'symx'),
            level_claimed=dict(category='model_checking', text=md['text'], design_ref=md.get('design_ref', 'DESIGN.md §4 ' + p)),
            level_note=md['note'],
            technique=md['technique']))
    man = dict(
        version=1,
        setup_cmd='bin/vp-env',
        hooks=dict(guard='ZOPE_INTERFACE_VERIF',
                   enable='no hooks are needed; checks import /repo/src directly (PURE_PYTHON=1) and compile the '
                          'current _zope_interface_coptimizations.c into a scratch copy for the C runs',
                   baseline_off_cmd='cd /repo && /venv/bin/python -m pytest -ra -q -p no:cacheprovider --timeout=900 '
                                    '--continue-on-collection-errors',
                   source_commits=[], add_only=True),
        engines=[
            dict(name='symx', path='vlib/symx.py', serves_properties=[c['property_id'] for c in checks if 'symx' in c['engine']],
                 kind_free_text='path-exhaustive symbolic execution of the real Python code with the CrossHair engine + z3 '
                                '(S: symbolic data kernels; E: solver-enumerated structures run on real objects, py and C builds)'),
            dict(name='astsmt', path='vlib/astsmt.py', serves_properties=[c['property_id'] for c in checks if 'astsmt' in c['engine']],
                 kind_free_text='z3 encoding generated from the function AST on every run (unbounded LIA queries)'),
            dict(name='irsym', path='vlib/irsym.py', serves_properties=[c['property_id'] for c in checks if 'irsym' in c['engine']],
                 kind_free_text='symbolic execution of the LLVM IR of _zope_interface_coptimizations.c (lookup layer) with C-API contract stubs, z3 reference counts and havoc at callback points'),
        ],
        checks=checks,
        not_applicable=na,
        notes='Every check: bin/check <ID> --tier quick|thorough; exit 0 ok / 1 VIOLATION (replayed) / 3 harness error '
              '(inconclusive machinery fault, never a verdict). Known findings: known_findings.json.')
    json.dump(man, open(os.path.join(ROOT, 'MANIFEST.json'), 'w'), indent=1)
    print('checks:', [c['property_id'] for c in checks], 'na:', [n['property_id'] for n in na])


if __name__ == '__main__':
    main()
