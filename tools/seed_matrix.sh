#!/bin/sh
# tools/seed_matrix.sh [seed-id ...] : run each seeded change against the quick check(s) of its property on a scratch
# worktree of /repo (VP_REPO) with evidence redirected (VP_EVIDENCE_DIR), so /repo and /verif/evidence stay untouched.
# Writes seeded/<id>/detect.log.  Extra properties to try can be listed in seeded/<id>/also (one per line).
cd "${VERIF_ROOT:-/verif}" || exit 2
IDS="$@"; [ -n "$IDS" ] || IDS=$(ls seeded)
for S in $IDS; do
  [ -f seeded/$S/patch.diff ] || continue
  P=$(echo $S | cut -c1-3)
  WT=/tmp/seedrun/$S; EV=/tmp/seedrun/ev-$S
  rm -rf $WT $EV; mkdir -p /tmp/seedrun
  git -C /repo worktree add -q --detach $WT HEAD || continue
  if ! git -C $WT apply "${VERIF_ROOT:-/verif}/seeded/$S/patch.diff"; then echo "$S: patch does not apply" > seeded/$S/detect.log; git -C /repo worktree remove --force $WT; continue; fi
  : > seeded/$S/detect.log
  for Q in $P $(cat seeded/$S/also 2>/dev/null); do
    OUT=$(VP_REPO=$WT VP_EVIDENCE_DIR=$EV bin/check $Q --tier quick 2>&1); RC=$?
    echo "== check $Q rc=$RC" >> seeded/$S/detect.log
    echo "$OUT" | grep -E "^  violation:|HARNESS-ERROR" | head -2 | cut -c1-700 >> seeded/$S/detect.log
  done
  git -C /repo worktree remove --force $WT; rm -rf $EV
  echo "$S: $(grep -c 'rc=1' seeded/$S/detect.log) detecting check(s)"
done
git -C /repo worktree prune
