#!/usr/bin/env python3
"""tools/seed_meta.py <round> <needs.json> [seed ...]: write seeded/<id>/meta.json from confirm.log + detect.log.
<needs.json> maps seed id -> what the change needs in order to manifest (taken from the sub-agent's report).
Existing 'missed_at_first' / 'strengthening' fields are preserved (they are set by hand when a check had to be strengthened)."""
import json
import os
import re
import sys

ROOT = os.path.dirname(os.path.dirname(os.path.abspath(__file__)))
rnd, needs_file = sys.argv[1], sys.argv[2]
needs = json.load(open(needs_file))
ids = sys.argv[3:] or sorted(needs)
for sid in ids:
    d = os.path.join(ROOT, 'seeded', sid)
    if not os.path.isdir(d):
        print('no such seed', sid)
        continue
    prop = sid[:3]
    conf = open(os.path.join(d, 'confirm.log')).read() if os.path.exists(os.path.join(d, 'confirm.log')) else ''
    det = open(os.path.join(d, 'detect.log')).read() if os.path.exists(os.path.join(d, 'detect.log')) else ''
    detected = re.findall(r'== check (C\d+) rc=1', det)
    first = [l.strip()[:400] for l in det.splitlines() if l.strip().startswith('violation:')][:2]
    old = {}
    mp = os.path.join(d, 'meta.json')
    if os.path.exists(mp):
        old = json.load(open(mp))
    meta = {
        'seed': sid, 'property': prop, 'breaks': prop,
        'needs_to_manifest': needs.get(sid, old.get('needs_to_manifest', '')),
        'round': rnd,
        'produced_by': 'independent sub-agent given only the property text, one line per earlier seed saying what it needs to manifest, and a scratch worktree',
        'confirmed_by': 'tools/confirm_seed.sh in the scratch worktree (git apply -R / apply, no stash): build; full suite = 12 failed (pre-existing), '
                        '1350 passed, 7 skipped with the change; demo.py exits non-zero with the change and 0 without it',
        'confirm_summary': [l for l in conf.splitlines() if l.startswith('RC changed')],
        'ran': 'tools/seed_matrix.sh %s (quick tier on a scratch worktree with the patch applied)' % sid,
        'detected_by': detected,
        'first_report': first,
        'missed_at_first': old.get('missed_at_first', False),
        'strengthening': old.get('strengthening'),
    }
    json.dump(meta, open(mp, 'w'), indent=1)
    print(sid, 'detected by', detected)
