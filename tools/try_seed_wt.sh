#!/bin/sh
# tools/try_seed_wt.sh <seed-id> <PROP> [extra bin/check args]: run one quick check against a scratch worktree of /repo with the
# seeded change applied (VP_REPO), evidence redirected; /repo and /verif/evidence stay untouched.  Prints rc and the first findings.
S=$1; P=$2; shift 2
WT=/tmp/seedtry/$S-$$; EV=/tmp/seedtry/ev-$S-$$
mkdir -p /tmp/seedtry
git -C /repo worktree add -q --detach $WT HEAD || exit 2
trap 'git -C /repo worktree remove --force $WT; rm -rf $EV' EXIT INT TERM
git -C $WT apply /verif/seeded/$S/patch.diff || { echo "patch does not apply"; exit 2; }
cd /verif
OUT=$(VP_REPO=$WT VP_EVIDENCE_DIR=$EV bin/check $P --tier "${TIER:-quick}" "$@" 2>&1); RC=$?
echo "== $S on $P rc=$RC"
echo "$OUT" | grep -E "^  violation:|HARNESS-ERROR|exhaustive=False" | head -${LINES_SHOWN:-3} | cut -c1-600
