#!/bin/sh
cd "$(dirname "$0")/.." || exit 2
export VP_EVIDENCE_DIR=${VP_EVIDENCE_DIR:-/tmp/thorough-ev}
for P in C18 C17 C12 C13 C11 C20 C07 C10 C05 C01; do
  S=$(date +%s); OUT=$(bin/check $P --tier thorough 2>&1); RC=$?; E=$(date +%s)
  echo "=== $P thorough rc=$RC wall=$((E-S))s"
  echo "$OUT" | grep -E "exhaustive=|VIOLATION|HARNESS-ERROR|^OK" | cut -c1-220
done
