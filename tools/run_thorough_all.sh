#!/bin/sh
# Run every thorough tier once, sequentially (evidence redirected so the committed quick evidence is not overwritten).
cd "$(dirname "$0")/.." || exit 2
export VP_EVIDENCE_DIR=${VP_EVIDENCE_DIR:-/tmp/thorough-ev}
for P in C18 C17 C03 C12 C14 C13 C20 C15 C11 C04 C09 C16 C08 C06 C02 C07 C19 C05 C10 C01; do
  S=$(date +%s)
  OUT=$(bin/check $P --tier thorough 2>&1); RC=$?
  E=$(date +%s)
  echo "=== $P thorough rc=$RC wall=$((E-S))s"
  echo "$OUT" | grep -E "exhaustive=|VIOLATION|HARNESS-ERROR|^OK" | cut -c1-220
done
