#!/bin/sh
# tools/try_seed.sh <patch.diff> <PROP> [<PROP>...] : apply a seeded change to /repo, run the quick checks, undo it.
PATCH=$(readlink -f "$1"); shift
cd /repo || exit 2
if ! git diff --quiet; then echo "repo dirty"; exit 2; fi
git apply "$PATCH" || { echo "patch does not apply"; exit 2; }
trap 'git -C /repo checkout -- . ' EXIT INT TERM
cd /verif
for P in "$@"; do
  OUT=$(bin/check "$P" --tier "${TIER:-quick}" 2>&1); RC=$?
  echo "== $P rc=$RC"
  echo "$OUT" | grep -E "VIOLATION|HARNESS-ERROR|violation:" | head -${LINES_SHOWN:-4}
done
