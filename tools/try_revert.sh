#!/bin/sh
# tools/try_revert.sh <fix-commit> <PROP> [...]: revert one of the "fix:" commits in a scratch worktree and run the quick checks
# against it (VP_REPO / VP_EVIDENCE_DIR): a fixed finding must be reported again when it returns.
C=$1; shift
WT=/tmp/seedrun/revert-$C; EV=/tmp/seedrun/ev-revert-$C
rm -rf "$WT" "$EV"; mkdir -p /tmp/seedrun
git -C /repo worktree add -q --detach "$WT" HEAD || exit 2
if ! git -C "$WT" revert --no-commit "$C" >/dev/null 2>&1; then echo "revert of $C conflicts"; git -C /repo worktree remove --force "$WT"; exit 2; fi
cd /verif
for Q in "$@"; do
  OUT=$(VP_REPO=$WT VP_EVIDENCE_DIR=$EV bin/check "$Q" --tier quick 2>&1); RC=$?
  echo "== revert $C: check $Q rc=$RC"
  echo "$OUT" | grep -E "^  violation:|HARNESS-ERROR" | head -2 | cut -c1-600
done
git -C /repo worktree remove --force "$WT"; rm -rf "$EV"; git -C /repo worktree prune
