"""Build the C accelerator from /repo's current working tree into a scratch dir."""
import os
import shutil
import subprocess
import sysconfig
import tempfile

REPO = os.environ.get('VP_REPO', '/repo')


def build(scratch=None):
    """Copy src/zope to scratch/zope, compile the .c there.  Returns scratch dir."""
    scratch = scratch or tempfile.mkdtemp(prefix='vp-zi-')
    dst = os.path.join(scratch, 'zope')
    shutil.copytree(os.path.join(REPO, 'src', 'zope'), dst,
                    ignore=shutil.ignore_patterns('*.so', '__pycache__', 'tests', '*.pyc'))
    csrc = os.path.join(dst, 'interface', '_zope_interface_coptimizations.c')
    suffix = sysconfig.get_config_var('EXT_SUFFIX')
    out = os.path.join(dst, 'interface', '_zope_interface_coptimizations' + suffix)
    inc = sysconfig.get_paths()['include']
    cmd = ['gcc', '-shared', '-fPIC', '-O1', '-g0', '-fno-strict-aliasing',
           '-I', inc, csrc, '-o', out]
    r = subprocess.run(cmd, capture_output=True, text=True)
    if r.returncode != 0:
        shutil.rmtree(scratch, ignore_errors=True)
        raise RuntimeError('C build failed:\n' + r.stderr[-4000:])
    return scratch


def cleanup(scratch):
    shutil.rmtree(scratch, ignore_errors=True)
