"""Registry universe + declarative reference model for the adapter-registry properties
(C04-C09, C16).  Everything here is plain Python over real zope.interface objects;
the reference model is written from the property statements, never from adapter.py.
"""
import itertools

from vlib import universe as U


class Val:
    """A registered value / factory.  Distinct objects; `eqid` makes two objects
    equal-but-not-identical (for unregister / unsubscribe semantics)."""

    def __init__(self, tag, eqid=None):
        self.tag = tag
        self.eqid = eqid if eqid is not None else tag

    def __eq__(self, other):
        return isinstance(other, Val) and other.eqid == self.eqid

    def __ne__(self, other):
        return not self.__eq__(other)

    def __hash__(self):
        return hash(self.eqid)

    def __call__(self, *objs):
        return ('made-by', self.tag) + tuple(objs)

    def __repr__(self):
        return '<Val %s>' % self.tag


class NoneFactory(Val):
    def __call__(self, *objs):
        return None


class FalsyVal(Val):
    """A registered value that is false in a boolean context (an empty container, 0, ...)."""

    def __bool__(self):
        return False

    def __len__(self):
        return 0


class FalsyResult(tuple):
    """What a FalsyFactory produces: an adapter / subscriber that is false in a boolean context (an empty sized adapter), not None."""

    def __bool__(self):
        return False


class FalsyFactory(Val):
    def __call__(self, *objs):
        return FalsyResult(('made-by', self.tag) + tuple(objs))


class RegUniverse:
    """Fresh interfaces, classes, objects and registries for one path."""

    # required-side diamond, provided-side diamond
    RSHAPE = ((), (0,), (0,), (1, 2))
    PSHAPE = ((), (0,), (0,), (1, 2))

    def __init__(self, flavour='adapter', nregs=2, bases=None):
        from zope.interface import Interface, implementer, directlyProvides, implementedBy, providedBy
        from zope.interface.adapter import AdapterRegistry, VerifyingAdapterRegistry
        mod = U.fresh_module_name()
        self.Interface = Interface
        self.R = U.build_ifaces(self.RSHAPE, prefix='R', module=mod)
        self.P = U.build_ifaces(self.PSHAPE, prefix='P', module=mod)
        R = self.R
        self.K0 = implementer(R[1])(type('K0', (object,), {}))
        self.K1 = implementer(R[2])(type('K1', (self.K0,), {}))
        self.KU = type('KU', (object,), {})   # declares nothing
        self.ob0 = self.K0()
        self.ob1 = self.K1()
        self.obd = self.K0()
        directlyProvides(self.obd, R[2])
        self.obu = self.KU()
        self.objects = [self.ob0, self.ob1, self.obd, self.obu]
        self.objnames = ['K0()', 'K1()', 'K0()+R2', 'KU()']
        self.implementedBy = implementedBy
        self.providedBy = providedBy
        self.flavour = flavour
        cls = AdapterRegistry if flavour == 'adapter' else VerifyingAdapterRegistry
        self.regs = [cls() for _ in range(nregs)]
        self.reg_bases = {i: () for i in range(nregs)}
        if bases is None:  # default: chain reg0 -> reg1 -> ...
            bases = {i: ((i + 1,) if i + 1 < nregs else ()) for i in range(nregs)}
        for i in sorted(bases, reverse=True):
            self.set_bases(i, bases[i])
        self.vals = {}

    # pools -----------------------------------------------------------------
    def req_pool(self):
        """Specifications usable as *required* at registration time."""
        return [None, self.R[0], self.R[1], self.R[2], self.R[3], self.implementedBy(self.K0)]

    def req_names(self):
        return ['None', 'R0', 'R1', 'R2', 'R3', 'impl(K0)']

    def lookup_pool(self):
        """Specifications looked up."""
        return [self.R[0], self.R[1], self.R[2], self.R[3], self.implementedBy(self.K0),
                self.implementedBy(self.K1), self.providedBy(self.obd), self.implementedBy(self.KU)]

    def lookup_names(self):
        return ['R0', 'R1', 'R2', 'R3', 'impl(K0)', 'impl(K1)', 'provided(K0()+R2)', 'impl(KU)']

    def val(self, tag, eqid=None, none_factory=False, falsy=False, falsy_factory=False):
        key = (tag, eqid, none_factory, falsy, falsy_factory)
        if key not in self.vals:
            cls = NoneFactory if none_factory else (FalsyVal if falsy else (FalsyFactory if falsy_factory else Val))
            self.vals[key] = cls(tag, eqid)
        return self.vals[key]

    def set_bases(self, i, bases):
        self.regs[i].__bases__ = tuple(self.regs[j] for j in bases)
        self.reg_bases[i] = tuple(bases)


# ---------------------------------------------------------------------------
# Reference model
# ---------------------------------------------------------------------------

def c3(i, bases_of, memo=None):
    """Independent C3 linearisation over registry indices."""
    memo = {} if memo is None else memo
    if i in memo:
        return memo[i]
    seqs = [list(c3(b, bases_of, memo)) for b in bases_of[i]] + [list(bases_of[i])]
    out = [i]
    while True:
        seqs = [s for s in seqs if s]
        if not seqs:
            break
        for s in seqs:
            cand = s[0]
            if not any(cand in t[1:] for t in seqs):
                break
        else:
            raise ValueError('no C3')
        out.append(cand)
        for s in seqs:
            if s[0] == cand:
                del s[0]
    memo[i] = out
    return out


class Model:
    """Net effect of a mutation history, per registry."""

    def __init__(self, nregs):
        self.adapters = [dict() for _ in range(nregs)]      # (req, prov, name) -> value
        self.subs = [list() for _ in range(nregs)]          # [(req, prov), value] in subscription order

    # keys use object identity of the specification objects
    @staticmethod
    def _k(required, provided, name=None):
        r = tuple(id(x) if x is not None else None for x in required)
        return (r, id(provided) if provided is not None else None) + ((name,) if name is not None else ())

    def register(self, ri, required, provided, name, value):
        k = self._k(required, provided, name)
        if value is None:
            self.adapters[ri].pop(k, None)
        else:
            self.adapters[ri][k] = (tuple(required), provided, name, value)

    def unregister(self, ri, required, provided, name, value=None):
        k = self._k(required, provided, name)
        cur = self.adapters[ri].get(k)
        if cur is None:
            return
        if value is not None and cur[3] is not value:
            return
        del self.adapters[ri][k]

    def subscribe(self, ri, required, provided, value):
        self.subs[ri].append((tuple(required), provided, value))

    def unsubscribe(self, ri, required, provided, value=None):
        k = self._k(required, provided)
        self.subs[ri] = [s for s in self.subs[ri]
                         if not (self._k(s[0], s[1]) == k and (value is None or s[2] == value))]


_SRO_CACHE = {}


def _sro_index(spec):
    """id(ancestor) -> position in spec.__sro__ (cached per sro tuple identity)."""
    sro = spec.__sro__
    key = id(sro)
    hit = _SRO_CACHE.get(key)
    if hit is None or hit[0] is not sro:
        idx = {}
        for k, s in enumerate(sro):
            idx.setdefault(id(s), k)
        if len(_SRO_CACHE) > 2000:
            _SRO_CACHE.clear()
        hit = (sro, idx)
        _SRO_CACHE[key] = hit
    return hit[1]


def _positions(reg_required, lookup_specs, Interface):
    """Position of each registered required spec in the looked-up spec's __sro__, or None."""
    pos = []
    for rq, spec in zip(reg_required, lookup_specs):
        rq = Interface if rq is None else rq
        p = _sro_index(spec).get(id(rq))
        if p is None:
            return None
        pos.append(p)
    return tuple(pos)


def lookup_admissible(model, u, ri, specs, provided, name):
    """Set of values the statement admits as the answer of lookup (empty => default)."""
    order = c3(ri, u.reg_bases)
    cands = []
    for rank, rj in enumerate(order):
        for (req, prov, nm, val) in model.adapters[rj].values():
            if nm != name or len(req) != len(specs):
                continue
            pos = _positions(req, specs, u.Interface)
            if pos is None or not prov.isOrExtends(provided):
                continue
            cands.append(((rank, pos), prov, val))
    if not cands:
        return []
    best = min(c[0] for c in cands)
    bests = [c for c in cands if c[0] == best]
    adm = [c for c in bests if not any(c[1] is not d[1] and c[1].extends(d[1]) for d in bests)]
    return [c[2] for c in adm]


def lookupall_names(model, u, ri, specs, provided):
    order = c3(ri, u.reg_bases)
    names = set()
    for rj in order:
        for (req, prov, nm, val) in model.adapters[rj].values():
            if len(req) == len(specs) and _positions(req, specs, u.Interface) is not None \
                    and prov.isOrExtends(provided):
                names.add(nm)
    return names


def subscriptions_expected(model, u, ri, specs, provided):
    """Expected multiset with the data needed for the order constraints:
    list of (registry rank in reversed(ro), positions, seq, value)."""
    order = c3(ri, u.reg_bases)
    out = []
    for rank, rj in enumerate(order):
        for seq, (req, prov, val) in enumerate(model.subs[rj]):
            if len(req) != len(specs):
                continue
            pos = _positions(req, specs, u.Interface)
            if pos is None:
                continue
            if provided is None:
                if prov is not None:
                    continue
            else:
                if prov is None or not prov.isOrExtends(provided):
                    continue
            out.append(dict(rank=rank, pos=pos, seq=seq, val=val,
                            key=Model._k(req, prov)))
    return out


def check_subscriptions(got, expected, what):
    """Multiset equality (by identity) + the three precedence relations. Returns error or None."""
    got = list(got)
    if sorted(id(g) for g in got) != sorted(id(e['val']) for e in expected):
        return '%s: multiset differs: got %r expected %r' % (what, got, [e['val'] for e in expected])
    # The same object may be subscribed under several keys: the result only has to admit *some* assignment of its
    # positions to the live subscriptions that respects the three precedence relations (a greedy assignment produced
    # a false alarm in the thorough tier: a under P0 and a, b under P1(P0) answered [a, b, a] for P0, which is right).
    def violates(a, b):
        """a precedes b in the result: is that forbidden?"""
        if a['rank'] < b['rank']:
            return 'subscriber of a derived registry precedes one of a base registry'
        if a['rank'] == b['rank']:
            if a['pos'] != b['pos'] and all(x <= y for x, y in zip(a['pos'], b['pos'])):
                return 'more specific required precedes less specific'
            if a['key'] == b['key'] and a['seq'] > b['seq']:
                return 'identical keys out of subscription order'
        return None

    reasons = []

    def search(k, placed, remaining):
        if k == len(got):
            return True
        for e in [e for e in remaining if e['val'] is got[k]]:
            bad = None
            for p in placed:
                bad = violates(p, e)
                if bad:
                    break
            if bad:
                if len(reasons) < 3:
                    reasons.append(bad)
                continue
            rest = list(remaining)
            rest.remove(e)
            if search(k + 1, placed + [e], rest):
                return True
        return False

    if not search(0, [], list(expected)):
        return '%s: %s: %r' % (what, reasons[0] if reasons else 'no admissible assignment', got)
    return None


# ---------------------------------------------------------------------------
# Observation of a registry: every lookup-family entry point for every key
# ---------------------------------------------------------------------------

def all_keys(u, arities=(0, 1, 2), names=('', 'n')):
    pool = u.lookup_pool()
    for a in arities:
        for combo in itertools.product(range(len(pool)), repeat=a):
            yield tuple(combo)


def observe(u, ri, arities=(0, 1), names=('', 'n'), objects=True, provided_idx=None, pool2=(1, 3, 4, 6)):
    """Deterministic summary of everything a registry answers (used for differential checks).
    Arity-2 keys range over the sub-pool `pool2` of the lookup pool."""
    reg = u.regs[ri]
    pool = u.lookup_pool()
    out = {}
    provs = range(len(u.P)) if provided_idx is None else provided_idx
    for a in arities:
        idx = range(len(pool)) if a < 2 else pool2
        for combo in itertools.product(idx, repeat=a):
            specs = [pool[c] for c in combo]
            for pi in provs:
                p = u.P[pi]
                for nm in names:
                    # first touch of the key carries an explicit default (a miss must not cache it)
                    d1 = reg.lookup(specs, p, nm, _D1)
                    out[('lookup', combo, pi, nm)] = _tag(reg.lookup(specs, p, nm))
                    d2 = reg.lookup(specs, p, nm, _D2)
                    out[('lookup-default', combo, pi, nm)] = (_tag(d1), _tag(d2))
                    if a == 1:
                        out[('lookup1', combo, pi, nm)] = _tag(reg.lookup1(specs[0], p, nm))
                la = reg.lookupAll(specs, p)
                out[('lookupAll', combo, pi)] = sorted((n_, _tag(v)) for n_, v in la)
                out[('names', combo, pi)] = sorted(reg.names(specs, p))
                out[('subscriptions', combo, pi)] = [_tag(v) for v in reg.subscriptions(specs, p)]
            out[('handlers', combo)] = [_tag(v) for v in reg.subscriptions(specs, None)]
    if objects:
        for oi, ob in enumerate(u.objects):
            for pi in provs:
                for nm in names:
                    out[('queryAdapter', oi, pi, nm)] = _tag(reg.queryAdapter(ob, u.P[pi], nm))
                    out[('adapter_hook', oi, pi, nm)] = _tag(reg.adapter_hook(u.P[pi], ob, nm))
                out[('subscribers', oi, pi)] = [_tag(v) for v in reg.subscribers([ob], u.P[pi])]
        if 2 in arities:
            for oi in (0, 2):
                for oj in (0, 1):
                    for pi in provs:
                        out[('queryMultiAdapter', oi, oj, pi)] = _tag(
                            reg.queryMultiAdapter([u.objects[oi], u.objects[oj]], u.P[pi], ''))
    return out


_D1, _D2 = 'default-1', 'default-2'


def _tag(v):
    if isinstance(v, Val):
        return v.tag
    if isinstance(v, tuple) and v and v[0] == 'made-by':
        return ('made-by', v[1]) + tuple(type(x).__name__ for x in v[2:])
    if isinstance(v, tuple):
        return tuple(_tag(x) for x in v)
    if v is None or isinstance(v, (str, int)):
        return v
    return type(v).__name__
