"""Worker process: explores one (harness, impl, part) sub-tree and prints JSON stats."""
import argparse
import json
import os
import sys


def main():
    ap = argparse.ArgumentParser()
    ap.add_argument('--prop', required=True)
    ap.add_argument('--harness', required=True)
    ap.add_argument('--impl', default='py')
    ap.add_argument('--part', type=int, default=0)
    ap.add_argument('--nparts', type=int, default=1)
    ap.add_argument('--params', default='{}')
    ap.add_argument('--budget', type=float, default=60.0)
    ap.add_argument('--ppt', type=float, default=20.0)
    ap.add_argument('--seed', type=int, default=0)
    ap.add_argument('--known', default='[]')
    ap.add_argument('--replay', default=None, help='JSON args: run concretely, no engine')
    a = ap.parse_args()

    sys.path.insert(0, os.path.dirname(os.path.dirname(os.path.abspath(__file__))))
    from vlib import boot
    boot.select(a.impl)
    from vlib import harness as hmod
    from vlib import symx
    hs, _mod = hmod.load(a.prop)
    h = hs[a.harness]
    params = json.loads(a.params)
    symx.KNOWN_SIGNATURES = set(json.loads(a.known))

    if a.replay is not None:
        fn = h.make(params, 0, 1)
        args = json.loads(a.replay)
        try:
            fn(**args)
        except symx.Violation as v:
            print(json.dumps(dict(reproduced=True, msg=v.msg, signature=v.signature,
                                  exc_type='Violation')))
            return 0
        except symx.IgnoreAttempt:
            print(json.dumps(dict(reproduced=False, msg='precondition not met in replay')))
            return 0
        except Exception as e:  # unexpected exception from the real code
            import traceback
            print(json.dumps(dict(reproduced=True, msg='%s: %s' % (type(e).__name__, e),
                                  signature=None, exc_type=type(e).__name__,
                                  tb=traceback.format_exc()[-2000:])))
            return 0
        print(json.dumps(dict(reproduced=False, msg='no exception')))
        return 0

    import random
    random.seed(a.seed * 1000 + a.part)
    try:
        fn = h.make(params, a.part, a.nparts)
    except (ImportError, AttributeError) as e:
        if not getattr(h, 'stub_kernel', False):
            raise
        # the private function a kernel harness drives is gone (renamed / inlined): the kernel does not apply to this tree
        print('\nVPJSON ' + json.dumps(dict(inapplicable='%s: %s' % (type(e).__name__, e), paths=0, part=a.part, impl=a.impl,
                                             exhausted=False)))
        return 0
    st = symx.explore(fn, budget_s=a.budget, per_path_timeout=a.ppt, seed=a.seed)
    st['part'] = a.part
    st['impl'] = a.impl
    print('\nVPJSON ' + json.dumps(st))
    return 0


if __name__ == '__main__':
    sys.exit(main())
