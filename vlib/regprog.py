"""Registry programs: op alphabets, application to a RegUniverse (+ reference Model),
and cold/warm differential helpers (C05, C06, C07, C08, C09, C10)."""
from vlib import regmodel as M

REQ = ['None', 'R0', 'R1', 'R2', 'R3', 'impl(K0)']


def apply_op(u, model, op, counters=None):
    """Apply one mutation to the real objects of universe `u` and to the reference model."""
    from zope.interface import (Interface, alsoProvides, classImplements, classImplementsOnly,
                                directlyProvides, noLongerProvides)
    kind = op[0]
    pool = u.req_pool()
    if kind in ('register', 'unregister', 'subscribe', 'unsubscribe'):
        _, ri, req, pi, name, vtag = op
        required = [pool[q] for q in req]
        prov = u.P[pi] if pi is not None else None
        if vtag is None:
            val = None
        elif isinstance(vtag, tuple) and vtag[0] == 'FALSY':  # ('FALSY', tag): a value that is false in a boolean context
            val = u.val(vtag[1], falsy=True)
        elif isinstance(vtag, tuple) and vtag[0] == 'FF':   # ('FF', tag): a factory whose product is false in a boolean context
            val = u.val(vtag[1], falsy_factory=True)
        elif isinstance(vtag, tuple) and vtag[0] == 'NF':   # ('NF', tag): a factory that returns None
            val = u.val(vtag[1], none_factory=True)
        elif isinstance(vtag, tuple):       # ('tag', eqid): equal-but-distinct values
            val = u.val(vtag[0], vtag[1])
        else:
            val = u.val(vtag)
        reg = u.regs[ri]
        if kind == 'register':
            reg.register(required, prov, name, val)
            model.register(ri, required, prov, name, val)
        elif kind == 'unregister':
            reg.unregister(required, prov, name, val)
            model.unregister(ri, required, prov, name, val)
        elif kind == 'subscribe':
            reg.subscribe(required, prov, val)
            model.subscribe(ri, required, prov, val)
        else:
            reg.unsubscribe(required, prov, val)
            model.unsubscribe(ri, required, prov, val)
    elif kind == 'setbases':
        _, ri, bases = op
        u.set_bases(ri, bases)
    elif kind == 'ibases':
        _, which, bases = op           # which: ('R', i) ; bases: tuple of R indices, () = Interface
        side = u.R if which[0] == 'R' else u.P
        side[which[1]].__bases__ = tuple(side[j] for j in bases) or (Interface,)
    elif kind == 'classImplements':
        classImplements(getattr(u, op[1]), u.R[op[2]])
    elif kind == 'classImplementsOnly':
        classImplementsOnly(getattr(u, op[1]), u.R[op[2]])
    elif kind == 'directlyProvides':
        directlyProvides(u.objects[op[1]], *[u.R[j] for j in op[2]])
    elif kind == 'alsoProvides':
        alsoProvides(u.objects[op[1]], u.R[op[2]])
    elif kind == 'noLongerProvides':
        try:
            noLongerProvides(u.objects[op[1]], u.R[op[2]])
        except ValueError:
            pass
    elif kind == 'rebuild':
        u.regs[op[1]].rebuild()
    elif kind == 'noop':
        pass
    else:
        raise ValueError(op)


def fmt(ops):
    out = []
    for op in ops:
        if op[0] in ('register', 'unregister', 'subscribe', 'unsubscribe'):
            _, ri, req, pi, name, vtag = op
            out.append('reg%d.%s([%s], %s%s, %r)' % (
                ri, op[0], ','.join(REQ[q] for q in req), 'P%s' % pi if pi is not None else 'None',
                (', %r' % name) if op[0] in ('register', 'unregister') else '', vtag))
        else:
            out.append(repr(op))
    return '; '.join(out)


def observe_all(u, arities=(0, 1), names=('', 'n'), provided_idx=None):
    return {ri: M.observe(u, ri, arities=arities, names=names, provided_idx=provided_idx)
            for ri in range(len(u.regs))}


def diff(a, b):
    for ri in a:
        for k in a[ri]:
            if a[ri][k] != b[ri].get(k):
                return ri, k, a[ri][k], b[ri].get(k)
    return None
