"""Evidence files (/verif/evidence/<id>.json, EVIDENCE.schema.json)."""
import json
import os

ROOT = os.path.dirname(os.path.dirname(os.path.abspath(__file__)))


def build(prop, tier, seed, hs, names, per_h, violations, harness_errors, known_report,
          replays_attempted, replays_reproduced, wall_s, mod):
    from vlib import harness as hmod
    evaluations = sum(a.get('paths', 0) for a in per_h)
    distinct = sum(a.get('distinct', 0) for a in per_h)
    samples = []
    for a in per_h:
        for s in a.get('samples', [])[:2]:
            samples.append(dict(harness=a['harness'], impl=a.get('impl'), case=s))
    if not samples:
        samples = [dict(note='no sample recorded')]
    encoded = {}
    desc = []
    for n in names:
        h = hs[n]
        for q in h.encoded:
            encoded[q] = hmod.source_digest(q)
        desc.append(dict(harness=n, kind=h.kind, impls=list(h.impls), bounds=h.bounds,
                         outside_the_claim=h.outside, oracle=h.oracle, stubs=list(h.stubs)))
    assumptions = []
    for n in names:
        assumptions += [a for a in hs[n].assumptions if a not in assumptions]
    assumptions += [a for a in getattr(mod, 'ASSUMPTIONS', []) if a not in assumptions]
    all_exh = bool(per_h) and all(a.get('exhaustive') for a in per_h)
    cov = dict(
        evaluations=evaluations,
        distinct_nontrivial=distinct,
        rule=getattr(mod, 'RULE', 'one evaluation = one path of the symbolic path tree '
                     '(S/IR: distinct path condition; E: distinct solver-enumerated structure); '
                     'non-trivial = the path reached the oracle (reachability witness) '
                     'with a distinct decoded case key'),
        samples=samples[:8],
        exhaustive=all_exh,
        technique='symbolic execution of the real code (CrossHair engine + z3 / own z3 encodings); '
                  'verdict = solver exhausts the path tree inside the bounds',
        functions_encoded=encoded,
        harnesses=desc,
        per_harness=[{k: v for k, v in a.items() if k not in ('samples',)} for a in per_h],
        solver_queries=sum(a.get('solver_queries', 0) for a in per_h),
        solver_s=round(sum(a.get('solver_s', 0.0) for a in per_h), 2),
        unknown_paths=sum(a.get('unknown', 0) for a in per_h),
        reachability_witness_paths=sum(a.get('reached', 0) for a in per_h),
        replays_attempted=replays_attempted,
        replays_reproduced=replays_reproduced,
        known_findings=known_report,
        harness_errors=harness_errors,
        violations_detail=violations,
    )
    return dict(property_id=prop, tier=tier, seed=seed, level='model_checking', coverage=cov,
                assumptions=assumptions, wall_s=round(wall_s, 2), violations=len(violations))


def write(prop, ev):
    d = os.environ.get('VP_EVIDENCE_DIR') or os.path.join(ROOT, 'evidence')
    os.makedirs(d, exist_ok=True)
    tmp = os.path.join(d, prop + '.json.tmp')
    with open(tmp, 'w') as f:
        json.dump(ev, f, indent=1, sort_keys=True)
    os.replace(tmp, os.path.join(d, prop + '.json'))
