"""Shared E-tier vocabulary: shape decoding and universe builders (fresh per path)."""
import itertools
import sys
import types

from vlib.symx import assume, pick

_OS_CACHE = {}


def ordered_subsets(n, maxlen=None):
    """All ordered lists of distinct elements of range(n) (incl. the empty one)."""
    key = (n, maxlen)
    if key not in _OS_CACHE:
        out = []
        for k in range(0, (n if maxlen is None else min(n, maxlen)) + 1):
            out.extend(itertools.permutations(range(n), k))
        _OS_CACHE[key] = out
    return _OS_CACHE[key]


def decode_dag(selectors, n, maxbases=None):
    """selectors[i-1] chooses the ordered base list of node i among nodes < i.
    Node 0 has no bases.  Returns tuple of tuples."""
    shape = [()]
    for i in range(1, n):
        opts = ordered_subsets(i, maxbases)
        shape.append(opts[pick(selectors[i - 1], len(opts))])
    return tuple(shape)


def count_dags(n, maxbases=None):
    c = 1
    for i in range(1, n):
        c *= len(ordered_subsets(i, maxbases))
    return c


_UNIVERSE = [0]


def fresh_module_name():
    """Interfaces compare and hash by (__name__, __module__): every universe gets its
    own module name so that objects of different paths are never equal to each other
    (equal-but-distinct interfaces share weak-dict slots in `dependents`)."""
    _UNIVERSE[0] += 1
    return 'vp_universe_%d' % _UNIVERSE[0]


def build_ifaces(shape, prefix='I', module=None, attrs=None):
    from zope.interface import Interface
    from zope.interface.interface import InterfaceClass
    module = module or fresh_module_name()
    out = []
    for i, bases in enumerate(shape):
        b = tuple(out[j] for j in bases) or (Interface,)
        out.append(InterfaceClass('%s%d' % (prefix, i), b, dict(attrs[i]) if attrs else None,
                                  __module__=module))
    return out


def build_classes(shape, prefix='K', body=None):
    out = []
    for i, bases in enumerate(shape):
        b = tuple(out[j] for j in bases) or (object,)
        out.append(type('%s%d' % (prefix, i), b, dict(body[i]) if body else {}))
    return out


def ancestors(shape, i):
    seen = []
    stack = [i]
    while stack:
        x = stack.pop()
        if x in seen:
            continue
        seen.append(x)
        stack.extend(shape[x])
    return set(seen)


def install_module(name='vp_universe', **objs):
    mod = types.ModuleType(name)
    for k, v in objs.items():
        setattr(mod, k, v)
    sys.modules[name] = mod
    return mod
