"""API programs for the C-vs-Python differential (C10).

`execute(family, program)` runs one concrete, solver-decoded program over the public API of whichever
build is selected in this process and returns a JSON-able *trace*: per step the results (as names /
tags), exception type names, and the subsequent query results.  Nothing in a trace depends on object
addresses, hash seeds or the build.
"""
import itertools


def _exc(e):
    return 'raise:' + type(e).__name__


# ---------------------------------------------------------------------------
# family 'decl': declaration histories (alphabet of props.C01)
# ---------------------------------------------------------------------------

def run_decl(program):
    from props import C01
    from vlib.symx import Violation
    alpha = C01.alphabet(True if program[0] else False)      # program[0] selects the alphabet
    ops = [alpha[i] for i in program[1:]]
    if not C01.valid_history(tuple(ops)):
        return None
    u = C01.Universe()
    trace = []
    for op in ops:
        try:
            raised = C01.apply_real(u, op)
            step = ['ok', bool(raised)]
        except Exception as e:   # noqa
            step = [_exc(e)]
        try:
            obs = C01.observe(u)
            step.append(sorted([k[0], k[1], sorted(v)] for k, v in obs.items()))
        except Violation as v:
            step.append('accessors-disagree:' + str(v.signature))
        except Exception as e:   # noqa
            step.append(_exc(e))
        # specification-level queries
        from zope.interface import implementedBy, providedBy
        extra = []
        for o in u.live_objs():
            sp = providedBy(u.obj[o])
            extra.append([type(sp).__name__, [getattr(x, '__name__', '?') for x in sp.__sro__][:12]])
        for c in u.live_classes():
            sp = implementedBy(u.K[c])
            extra.append([sp.__name__.split('.')[-1], [getattr(x, '__name__', '?').split('.')[-1] for x in sp.__sro__][:12]])
        step.append(extra)
        trace.append(step)
    return trace


# ---------------------------------------------------------------------------
# family 'reg': registry histories (alphabet of props.C05, level 2) with full observation
# ---------------------------------------------------------------------------

def run_reg(program):
    from props import C05
    from vlib import regmodel as M
    from vlib import regprog as RP
    flavour = 'adapter' if program[0] == 0 else 'verifying'
    alpha = C05.alphabet(2)
    ops = [alpha[i] for i in program[1:]]
    u = M.RegUniverse(flavour=flavour, nregs=2)
    model = M.Model(2)
    trace = []

    def obs():
        out = []
        for ri in (0, 1):
            try:
                d = M.observe(u, ri, arities=(0, 1, 2))
                out.append(sorted([repr(k), repr(v)] for k, v in d.items()))
            except Exception as e:   # noqa
                out.append(_exc(e))
        return out
    trace.append(obs())
    for op in ops:
        try:
            RP.apply_op(u, model, op)
            step = ['ok']
        except Exception as e:   # noqa
            step = [_exc(e)]
        step.append(obs())
        trace.append(step)
    return trace


# ---------------------------------------------------------------------------
# family 'cmp': comparison / hashing on odd operands
# ---------------------------------------------------------------------------

CMP_STR = ['', 'a', 'ab', 'a.b', 'b', '\xe9', 'A']


def _fresh(s):
    return ''.join([c for c in s])


class _Foreign:
    pass


def cmp_operand(kind, i, j):
    from zope.interface import Interface
    from zope.interface.declarations import Implements
    from zope.interface.interface import InterfaceClass
    n, m = _fresh(CMP_STR[i]), _fresh(CMP_STR[j])
    if kind == 0:
        return InterfaceClass(n, (), {}, __module__=m)
    if kind == 1:
        return Implements.named(n)
    if kind == 2:
        return None
    if kind == 3:                       # foreign object with both attributes
        f = _Foreign()
        f.__name__, f.__module__ = n, m
        return f
    if kind == 4:                       # foreign object lacking __module__... as an instance attribute only
        f = _Foreign()
        f.__name__ = n
        return f
    if kind == 5:
        return (n, m)
    if kind == 6:
        return Interface
    if kind == 7:                       # non-string attributes
        f = _Foreign()
        f.__name__, f.__module__ = i, None
        return f
    if kind == 8:                       # subclass instance of InterfaceClass
        class Sub(InterfaceClass):
            pass
        return Sub(n, (), {}, __module__=m)
    if kind == 9:                       # a handle standing in for an interface: own __eq__/__ne__, no __name__/__module__
        class Handle:
            __slots__ = ()

            def __eq__(self, other):
                return isinstance(other, InterfaceClass)

            def __ne__(self, other):
                return not isinstance(other, InterfaceClass)

            __hash__ = None

            def __getattr__(self, name):
                raise AttributeError(name)
        return Handle()
    raise ValueError(kind)


NCMP_KINDS = 10


def run_cmp(program):
    import operator
    (k1, i1, j1, k2, i2, j2) = program
    a, b = cmp_operand(k1, i1, j1), cmp_operand(k2, i2, j2)
    trace = []
    for name in ('lt', 'le', 'gt', 'ge', 'eq', 'ne'):
        for (x, y) in ((a, b), (b, a), (a, a)):
            try:
                r = getattr(operator, name)(x, y)
                trace.append(repr(r) if isinstance(r, bool) else type(r).__name__)
            except Exception as e:   # noqa
                trace.append(_exc(e))
            try:                       # the dunder directly (NotImplemented visible)
                m = getattr(type(x), '__%s__' % name, None)
                r = m(x, y) if m is not None else 'no-method'
                trace.append(repr(r) if isinstance(r, (bool, str)) or r is NotImplemented else type(r).__name__)
            except Exception as e:   # noqa
                trace.append(_exc(e))
    for x in (a, b):
        try:
            trace.append(hash(x) == hash((getattr(x, '__name__', None), getattr(x, '__module__', None))))
        except Exception as e:   # noqa
            trace.append(_exc(e))
    if 9 in (k1, k2):
        return trace                   # unorderable on purpose: no sorted()
    try:
        coll = [b, a, cmp_operand(k1, i2, j1)]
        trace.append([[getattr(x, '__name__', repr(x)), getattr(x, '__module__', None)] for x in sorted(coll)])
    except Exception as e:   # noqa
        trace.append(_exc(e))
    return trace


# ---------------------------------------------------------------------------
# family 'call': adaptation calls (cases of props.C14)
# ---------------------------------------------------------------------------

def run_call(program):
    from props import C14
    return C14.run_case(tuple(program[:2]) + (tuple(program[2]),) + tuple(program[3:]), trace=True)


# ---------------------------------------------------------------------------
# family 'odd': specification protocol on odd objects
# ---------------------------------------------------------------------------

ODD_ATTR = ['absent', 'spec', 'declaration', 'None', 'non-spec', 'raises-AttributeError', 'raises-ValueError', 'implements-of-other']
ODD_FUNCS = ['providedBy', 'I.providedBy', 'implementedBy(type)', 'getObjectSpecification', 'I.implementedBy(type)',
             'implementedBy(obj)', 'providedBy(type)', 'I(obj, alt)', 'directlyProvidedBy']


def run_odd(program):
    """program = (providedBy_kind, provides_kind, implemented_kind, class_kind, func)"""
    from zope.interface import (Interface, directlyProvidedBy, implementedBy, implementer, providedBy)
    from zope.interface.declarations import Declaration, getObjectSpecification
    from zope.interface.interface import InterfaceClass
    (pb, pv, im, ck, fn) = program
    I = InterfaceClass('I', (Interface,), {}, __module__='vp_odd')
    J = InterfaceClass('J', (I,), {}, __module__='vp_odd')

    @implementer(J)
    class Other:
        pass

    def value(kind):
        k = ODD_ATTR[kind]
        if k == 'spec':
            return J
        if k == 'declaration':
            return Declaration(I)
        if k == 'None':
            return None
        if k == 'non-spec':
            return 42
        if k == 'implements-of-other':
            return implementedBy(Other)
        return k

    def install(ns, name, kind):
        k = ODD_ATTR[kind]
        if k == 'absent':
            return
        if k.startswith('raises-'):
            exc = AttributeError if k == 'raises-AttributeError' else ValueError

            def getter(self, exc=exc, name=name):
                raise exc(name)
            ns[name] = property(getter)
        else:
            ns[name] = value(kind)
    ns = {}
    install(ns, '__providedBy__', pb)
    install(ns, '__provides__', pv)
    if ODD_ATTR[im] not in ('raises-AttributeError', 'raises-ValueError'):
        install(ns, '__implemented__', im)
    try:
        if ck == 0:
            C = type('C', (object,), ns)
        elif ck == 1:
            C = type('C', (Other,), ns)
        elif ck == 2:
            ns['__slots__'] = ()
            C = type('C', (object,), ns)
        else:                                   # __class__ lies
            ns['__class__'] = property(lambda self: Other)
            C = type('C', (object,), ns)
        ob = C()
    except Exception as e:   # noqa
        return ['build', _exc(e)]

    def desc(r):
        if r is None or isinstance(r, (bool, int, str)):
            return repr(r)
        fl = getattr(r, 'flattened', None)
        if fl is not None:
            try:
                return [type(r).__name__] + [getattr(x, '__name__', '?') for x in fl()]
            except Exception as e:   # noqa
                return [type(r).__name__, _exc(e)]
        if isinstance(r, InterfaceClass):
            return ['iface', r.__name__]
        return type(r).__name__
    f = ODD_FUNCS[fn]
    trace = []
    for rep in range(2):                          # twice: the second call sees whatever the first cached / installed
        try:
            if f == 'providedBy':
                r = providedBy(ob)
            elif f == 'I.providedBy':
                r = [I.providedBy(ob), J.providedBy(ob)]
            elif f == 'implementedBy(type)':
                r = implementedBy(C)
            elif f == 'getObjectSpecification':
                r = getObjectSpecification(ob)
            elif f == 'I.implementedBy(type)':
                r = [I.implementedBy(C), J.implementedBy(C)]
            elif f == 'implementedBy(obj)':
                r = implementedBy(ob)
            elif f == 'providedBy(type)':
                r = providedBy(C)
            elif f == 'I(obj, alt)':
                r = J(ob, 'alt')
                r = 'same-object' if r is ob else r
            else:
                r = directlyProvidedBy(ob)
            trace.append([desc(x) for x in r] if isinstance(r, list) else desc(r))
        except Exception as e:   # noqa
            trace.append(_exc(e))
    return trace


# ---------------------------------------------------------------------------
# family 'lb': LookupBase / VerifyingBase used directly with odd arguments
# ---------------------------------------------------------------------------

LB_REQ = ['tuple', 'list', 'generator', 'str-key', 'unhashable-in-tuple', 'int (not iterable)', 'empty']
LB_PROV = ['obj', 'unhashable', 'None']
LB_NAME = ['', 'n', 42, None, b'n']
LB_ANS = ['None', 'value', 'falsy', 'raises']
LB_CALL = ['lookup', 'lookup+default', 'lookup1', 'lookup1+default', 'queryAdapter', 'adapter_hook+default', 'lookupAll', 'subscriptions',
           'lookup-kw']


def run_lb(program):
    (base, req, prov, name, ans, call1, call2) = program
    from zope.interface import Interface, implementer
    from zope.interface.adapter import LookupBase, VerifyingBase
    log = []

    class Falsy:
        def __bool__(self):
            return False

        def __call__(self, ob):
            return None
    fal = Falsy()

    def answer():
        k = LB_ANS[ans]
        if k == 'None':
            return None
        if k == 'value':
            return lambda ob: ('adapted', type(ob).__name__)
        if k == 'falsy':
            return fal
        raise RuntimeError('uncached')

    class Reg:
        _generation = 1

        def __init__(self):
            self.ro = [self]

    class Mixin:
        def _uncached_lookup(self, required, provided, name=''):
            log.append(['u-lookup', type(required).__name__, len(required), type(name).__name__])
            return answer()

        def _uncached_lookupAll(self, required, provided):
            log.append(['u-lookupAll', type(required).__name__])
            a = answer()
            return (('', 'x'),) if a is not None else ()

        def _uncached_subscriptions(self, required, provided):
            log.append(['u-subscriptions', type(required).__name__])
            a = answer()
            return ['s'] if a is not None else []
    if base == 0:
        class LB(Mixin, LookupBase):
            pass
        lb = LB()
    else:
        class VB(Mixin, VerifyingBase):
            def __init__(self):
                self._registry = Reg()
                VerifyingBase.__init__(self) if hasattr(VerifyingBase, '__init__') else None
                self.changed(None)
        lb = VB()

    class K:
        pass
    k1 = K()

    def mk_req():
        r = LB_REQ[req]
        if r == 'tuple':
            return (k1,)
        if r == 'list':
            return [k1]
        if r == 'generator':
            return (x for x in [k1])
        if r == 'str-key':
            return 'k'
        if r == 'unhashable-in-tuple':
            return ([],)
        if r == 'empty':
            return ()
        return 7
    p = {'obj': K, 'unhashable': [], 'None': None}[LB_PROV[prov]]
    nm = LB_NAME[name]
    D = ('default',)

    @implementer(Interface)
    class Ob:
        pass
    ob = Ob()
    trace = []
    for c in (call1, call2, call1):
        cn = LB_CALL[c]
        try:
            if cn == 'lookup':
                r = lb.lookup(mk_req(), p, nm)
            elif cn == 'lookup+default':
                r = lb.lookup(mk_req(), p, nm, D)
            elif cn == 'lookup-kw':
                r = lb.lookup(required=mk_req(), provided=p, name=nm, default=D)
            elif cn == 'lookup1':
                r = lb.lookup1(k1, p, nm)
            elif cn == 'lookup1+default':
                r = lb.lookup1(k1, p, nm, D)
            elif cn == 'queryAdapter':
                r = lb.queryAdapter(ob, p, nm)
            elif cn == 'adapter_hook+default':
                r = lb.adapter_hook(p, ob, nm, D)
            elif cn == 'lookupAll':
                r = lb.lookupAll(mk_req(), p)
            else:
                r = lb.subscriptions(mk_req(), p)
            if r is D:
                r = 'DEFAULT'
            elif r is fal:
                r = 'FALSY'
            elif callable(r):
                r = 'FACTORY'
            trace.append(repr(r))
        except Exception as e:   # noqa
            trace.append(_exc(e))
    trace.append(log)
    return trace



# ---------------------------------------------------------------------------
# family 'snap': generation snapshot of VerifyingAdapterRegistry over chains of 2..4 registries
# ---------------------------------------------------------------------------

SNAP_MUT = ['register', 'unregister', 'subscribe', 'unsubscribe', 'rebase',
            # two steps with lookups in between: registry k gains a new (empty) base, the front registry is asked, the new base changes
            'rebase, lookups, register in the new base', 'rebase, lookups, subscribe in the new base']


def run_snap(program):
    """program = [L, k, m, warm]: chain r0 <- r1 <- ... <- r(L-1) of VerifyingAdapterRegistry (r0 in front); every entry point of r0 is
    observed (if warm), registry k (1 <= k < L) is mutated with SNAP_MUT[m], every entry point of r0 is observed again.  The trace also
    carries the observation of a chain built afterwards with the same registrations and no earlier lookups."""
    from zope.interface import Interface, implementer
    from zope.interface.adapter import VerifyingAdapterRegistry
    from zope.interface.interface import InterfaceClass
    L, k, m, warm = program[:4]
    first = program[4] if len(program) > 4 else 0        # the entry point that is asked first after the mutation (the others follow)
    if not (1 <= k < L):
        return None
    IR = InterfaceClass('IR', (Interface,), __module__='snap')
    IP = InterfaceClass('IP', (Interface,), __module__='snap')

    @implementer(IR)
    class Ob:
        pass
    ob = Ob()

    def build(with_mut):
        regs = []
        for i in range(L):
            regs.insert(0, VerifyingAdapterRegistry(tuple(regs[:1])))
        # regs[0] is the front registry, regs[i] its i-th ancestor
        pre = SNAP_MUT[m] in ('unregister', 'unsubscribe')
        if pre:
            regs[k].register([IR], IP, '', 'pre-adapter')
            regs[k].subscribe([IR], IP, 'pre-sub')
        return regs

    def mutate(regs, between=True):
        mm = SNAP_MUT[m]
        if mm == 'register':
            regs[k].register([IR], IP, '', 'new-adapter')
        elif mm == 'unregister':
            regs[k].unregister([IR], IP, '')
        elif mm == 'subscribe':
            regs[k].subscribe([IR], IP, 'new-sub')
        elif mm == 'unsubscribe':
            regs[k].unsubscribe([IR], IP, 'pre-sub')
        elif mm == 'rebase':
            extra = VerifyingAdapterRegistry()
            extra.register([IR], IP, '', 'from-new-base')
            regs[k].__bases__ = regs[k].__bases__ + (extra,)
            regs.append(extra)
        else:
            extra = VerifyingAdapterRegistry()
            regs[k].__bases__ = regs[k].__bases__ + (extra,)
            regs.append(extra)
            if between:
                obs(regs[0])
            if 'register' in mm:
                extra.register([IR], IP, '', 'late-in-new-base')
            else:
                extra.subscribe([IR], IP, 'late-sub-in-new-base')

    def obs(r):
        fs = (lambda: r.lookup((IR,), IP), lambda: r.lookup1(IR, IP), lambda: r.queryAdapter(ob, IP, default='dflt'),
              lambda: r.adapter_hook(IP, ob, '', 'dflt'), lambda: sorted(r.lookupAll((IR,), IP)), lambda: sorted(r.names((IR,), IP)),
              lambda: list(r.subscriptions((IR,), IP)), lambda: r.lookup((IR, IR), IP))
        out = [None] * len(fs)
        for i in [first % len(fs)] + [j for j in range(len(fs)) if j != first % len(fs)]:
            try:
                out[i] = repr(fs[i]())
            except Exception as e:   # noqa
                out[i] = _exc(e)
        return out
    regs = build(True)
    trace = {}
    if warm:
        trace['before'] = obs(regs[0])
    mutate(regs)
    trace['after'] = obs(regs[0])
    ref = build(True)
    mutate(ref, between=False)
    trace['fresh'] = obs(ref[0])
    trace['stale'] = trace['after'] != trace['fresh']
    return trace


# ---------------------------------------------------------------------------
# family 'kw': every C-implemented callable called with its documented parameter names, each split of positional / keyword
# ---------------------------------------------------------------------------

KW_TARGETS = ['AdapterRegistry.lookup', 'AdapterRegistry.lookup1', 'AdapterRegistry.queryAdapter', 'AdapterRegistry.adapter_hook',
              'AdapterRegistry.lookupAll', 'AdapterRegistry.subscriptions',
              'VerifyingAdapterRegistry.lookup', 'VerifyingAdapterRegistry.lookup1', 'VerifyingAdapterRegistry.queryAdapter',
              'VerifyingAdapterRegistry.adapter_hook', 'VerifyingAdapterRegistry.lookupAll', 'VerifyingAdapterRegistry.subscriptions',
              'Interface.__call__', 'Interface.__adapt__', 'Specification.isOrExtends', 'Specification.providedBy',
              'Specification.implementedBy', 'providedBy', 'implementedBy', 'getObjectSpecification', 'lookup.changed']
KW_POSITIONAL_ONLY_IN_C = (13, 14, 15, 16, 17, 18, 19, 20)       # METH_O in the accelerator
KW_MODES = ['documented names', 'one keyword misspelled', 'first argument given twice']


def run_kw(program):
    """program = [target, npos, mode]: the first `npos` arguments positionally, the rest by their documented names."""
    from zope.interface import Interface, implementer, implementedBy, providedBy
    from zope.interface.adapter import AdapterRegistry, VerifyingAdapterRegistry
    from zope.interface.declarations import getObjectSpecification
    from zope.interface.interface import InterfaceClass
    t, npos, mode = program
    IR = InterfaceClass('IR', (Interface,), __module__='kwfam')
    IP = InterfaceClass('IP', (Interface,), __module__='kwfam')

    @implementer(IR)
    class Ob:
        pass

    class Fac:
        def __init__(self, o):
            self.o = o

        def __repr__(self):
            return 'Fac(%s)' % type(self.o).__name__
    ob = Ob()
    reg = None
    if t < 12:
        reg = (AdapterRegistry if t < 6 else VerifyingAdapterRegistry)()
        reg.register([IR], IP, 'n', Fac)
        reg.subscribe([IR], IP, Fac)
        k = t % 6
        fn = getattr(reg, ('lookup', 'lookup1', 'queryAdapter', 'adapter_hook', 'lookupAll', 'subscriptions')[k])
        args = [[('required', (IR,)), ('provided', IP), ('name', 'n'), ('default', 'D')],
                [('required', IR), ('provided', IP), ('name', 'n'), ('default', 'D')],
                [('object', ob), ('provided', IP), ('name', 'n'), ('default', 'D')],
                [('provided', IP), ('object', ob), ('name', 'n'), ('default', 'D')],
                [('required', (IR,)), ('provided', IP)],
                [('required', (IR,)), ('provided', IP)]][k]
    elif t == 12:
        fn, args = IR.__call__, [('obj', ob), ('alternate', 'ALT')]
    elif t == 13:
        fn, args = IP.__adapt__, [('obj', ob)]
    elif t == 14:
        fn, args = IR.isOrExtends, [('interface', Interface)]
    elif t == 15:
        fn, args = IR.providedBy, [('ob', ob)]
    elif t == 16:
        fn, args = IR.implementedBy, [('cls', Ob)]
    elif t == 17:
        fn, args = providedBy, [('ob', ob)]
    elif t == 18:
        fn, args = implementedBy, [('cls', Ob)]
    elif t == 19:
        fn, args = getObjectSpecification, [('ob', ob)]
    else:
        reg = AdapterRegistry()
        fn, args = reg._v_lookup.changed, [('originally_changed', None)]
    if npos > len(args):
        return None
    pos = [v for (_n, v) in args[:npos]]
    kw = {n: v for (n, v) in args[npos:]}
    if mode == 1:
        if not kw:
            return None
        first = sorted(kw)[0]
        kw[first + '_x'] = kw.pop(first)
    elif mode == 2:
        if not npos:
            return None
        kw[args[0][0]] = args[0][1]
    try:
        r = fn(*pos, **kw)
    except Exception as e:   # noqa
        return [_exc(e), None]
    if r is ob:
        r = 'the-object'
    elif hasattr(r, '__sro__') or hasattr(r, '__iro__'):
        r = [getattr(x, '__name__', '?') for x in r.__sro__][:6]
    elif isinstance(r, (list, tuple)):
        r = [repr(x) if not isinstance(x, type) else x.__name__ for x in r]
    elif isinstance(r, type):
        r = r.__name__
    return ['ok', repr(r) if not isinstance(r, list) else r]

FAMILIES = {'decl': run_decl, 'reg': run_reg, 'cmp': run_cmp, 'call': run_call, 'odd': run_odd, 'lb': run_lb, 'snap': run_snap, 'kw': run_kw}


def execute(family, program):
    return FAMILIES[family](program)


def first_difference(a, b, path=''):
    if type(a) is not type(b):
        return path, a, b
    if isinstance(a, list):
        if len(a) != len(b):
            return path + '.len', len(a), len(b)
        for i, (x, y) in enumerate(zip(a, b)):
            d = first_difference(x, y, '%s[%d]' % (path, i))
            if d:
                return d
        return None
    if isinstance(a, dict):
        for k in sorted(set(a) | set(b)):
            d = first_difference(a.get(k), b.get(k), '%s.%s' % (path, k))
            if d:
                return d
        return None
    return None if a == b else (path, a, b)


def all_differences(a, b, path='', out=None, limit=40):
    out = [] if out is None else out
    if len(out) >= limit:
        return out
    if type(a) is not type(b):
        out.append((path, a, b))
    elif isinstance(a, list):
        if len(a) != len(b):
            out.append((path + '.len', len(a), len(b)))
        for i, (x, y) in enumerate(zip(a, b)):
            all_differences(x, y, '%s[%d]' % (path, i), out, limit)
    elif isinstance(a, dict):
        for k in sorted(set(a) | set(b)):
            all_differences(a.get(k), b.get(k), '%s.%s' % (path, k), out, limit)
    elif a != b:
        out.append((path, a, b))
    return out


# ---------------------------------------------------------------------------
# family 'reent': a lookup interrupted, at a chosen callback point, by code that mutates the registry
# ---------------------------------------------------------------------------

RE_ENTRY = ['lookup', 'lookup1', 'queryAdapter', 'adapter_hook', 'lookupAll', 'subscriptions', 'queryMultiAdapter', 'subscribers',
            'names']
RE_POINT = ['uncached-before', 'uncached-after', 'lazy-required', 'providedBy-descriptor', 'factory', 'provided-hash',
            'value-destructor', 'name-hash', 'required-key-eq', 'unhashable-provided-error-path',
            'super-subclass-computed-self', 'uncached-raises-error-path', 'generation-property',
            'cached-factory-destructor']
RE_MUT = ['register-more-specific', 'unregister', 'subscribe', 'changed-only', 'rebase', 'register-then-lookup-other-key',
          # no mutation at all: the interrupting code only performs single-adapter lookups for *another* required specification
          'only-looks-up-another-specification']
RE_WARM = ['cold', 'warm-other-key', 'warm-same-key-then-changed']


class _Fac:
    def __init__(self, tag, hook=None):
        self.tag, self.hook = tag, hook

    def __call__(self, *obs):
        if self.hook is not None:
            self.hook()
        return ('made', self.tag)

    def __repr__(self):
        return '<Fac %s>' % self.tag


def _tagval(v):
    if isinstance(v, _Fac):
        return v.tag
    if isinstance(v, (list, tuple)):
        return [_tagval(x) for x in v]
    return v if v is None or isinstance(v, (str, int)) else type(v).__name__


def run_reent(program):
    """program = (flavour, entry, point, mutation, warm).  Returns None when the entry point never reaches the
    callback point; else a dict with the interrupted call's answer, the answer of the same call repeated afterwards,
    the reference answers before / after the mutation (twin registries, no interruption), whether any of the fresh
    dictionaries allocated by the callback was written to (write through a dangling cache pointer), exceptions and
    reference-count deltas."""
    import gc
    import sys
    (flav, entry, point, mut, warm) = program
    from zope.interface import Interface, implementer, providedBy
    from zope.interface.adapter import (AdapterLookup, AdapterRegistry, VerifyingAdapterLookup, VerifyingAdapterRegistry)
    from zope.interface.interface import InterfaceClass
    en, pt, mu = RE_ENTRY[entry], RE_POINT[point], RE_MUT[mut]
    needs_object = en in ('queryAdapter', 'adapter_hook', 'queryMultiAdapter', 'subscribers')
    if pt == 'lazy-required' and en not in ('lookup', 'lookupAll', 'subscriptions', 'names', 'queryMultiAdapter', 'subscribers'):
        return None
    if pt == 'providedBy-descriptor' and not needs_object:
        return None
    if pt == 'factory' and en not in ('queryAdapter', 'adapter_hook', 'queryMultiAdapter', 'subscribers'):
        return None
    if pt == 'required-key-eq' and en not in ('lookup', 'lookup1', 'lookupAll', 'subscriptions', 'names'):
        return None
    if pt == 'name-hash' and en in ('lookupAll', 'subscriptions', 'names', 'subscribers'):
        return None
    if pt == 'generation-property' and flav != 1:
        return None          # only verifying registries read the generations of their bases

    if pt == 'unhashable-provided-error-path':
        if mut != 0 or warm != 0:
            return None
        return _reent_error_path(flav, en)
    if pt == 'super-subclass-computed-self':
        if mut != 0 or warm != 0 or en not in ('queryAdapter', 'adapter_hook', 'queryMultiAdapter'):
            return None
        return _reent_super_self(flav, en)
    if pt == 'uncached-raises-error-path':
        if mut != 0 or warm != 0:
            return None
        return _reent_uncached_raises(flav, en)
    if pt == 'cached-factory-destructor':
        if mut != 0 or warm != 0:
            return None
        return _reent_destructor(flav, en)

    state = dict(fired=False, witness=[], hook=None, inner=None)

    def fire():
        if state['fired'] or state['hook'] is None:
            return
        state['fired'] = True
        state['hook']()
        # fresh dictionaries: CPython hands a just-released dict back from its free list, so a later write
        # through a dangling pointer to a released cache dict lands in one of these
        state['witness'] = [dict() for _ in range(24)]
        # likewise for tuples (a released resolution-order snapshot): recycled as tuples of plain integers, so that code
        # still iterating the released tuple trips over objects that are no registries
        state['junk'] = [tuple([7000 + i] * n) for i in range(60) for n in (1, 2, 3)]

    base_lookup = AdapterLookup if flav == 0 else VerifyingAdapterLookup

    class HookedLookup(base_lookup):
        def _uncached_lookup(self, required, provided, name=''):
            if pt == 'uncached-before':
                fire()
            r = base_lookup._uncached_lookup(self, required, provided, name)
            if pt == 'uncached-after':
                fire()
            return r

        def _uncached_lookupAll(self, required, provided):
            if pt == 'uncached-before':
                fire()
            r = base_lookup._uncached_lookupAll(self, required, provided)
            if pt == 'uncached-after':
                fire()
            return r

        def _uncached_subscriptions(self, required, provided):
            if pt == 'uncached-before':
                fire()
            r = base_lookup._uncached_subscriptions(self, required, provided)
            if pt == 'uncached-after':
                fire()
            return r

    class HookedRegistry(AdapterRegistry if flav == 0 else VerifyingAdapterRegistry):
        LookupClass = HookedLookup

    def world(hooked):
        w = {}
        mod = 'vp_reent'
        w['IR0'] = InterfaceClass('IR0', (Interface,), {}, __module__=mod)
        w['IR1'] = InterfaceClass('IR1', (w['IR0'],), {}, __module__=mod)
        if pt == 'provided-hash' and hooked:
            class HashingIface(InterfaceClass):
                def __hash__(self):
                    fire()
                    return InterfaceClass.__hash__(self)

                def __eq__(self, other):
                    return self is other
            w['P'] = HashingIface('P', (Interface,), {}, __module__=mod)
        else:
            w['P'] = InterfaceClass('P', (Interface,), {}, __module__=mod)
        w['Q'] = InterfaceClass('Q', (Interface,), {}, __module__=mod)
        ns = {}
        if pt == 'providedBy-descriptor' and hooked:
            class Desc:
                def __get__(self, inst, owner):
                    if inst is None:
                        return self
                    fire()
                    from zope.interface.declarations import getObjectSpecification
                    return getObjectSpecification(inst)
            ns['__providedBy__'] = Desc()
        K = implementer(w['IR1'])(type('K', (object,), {}))
        if ns:
            K.__providedBy__ = ns['__providedBy__']
        w['K'], w['ob'] = K, K()
        reg = (HookedRegistry if hooked else (AdapterRegistry if flav == 0 else VerifyingAdapterRegistry))()
        other = (AdapterRegistry if flav == 0 else VerifyingAdapterRegistry)()
        if pt == 'generation-property':
            # a base registry whose generation counter is computed: reading it (in _verify / changed) runs Python
            class GenRegistry(VerifyingAdapterRegistry):
                @property
                def _generation(self):
                    if hooked:
                        fire()
                    return self.__dict__.get('_gen', 0)

                @_generation.setter
                def _generation(self, v):
                    self.__dict__['_gen'] = v
            gen = GenRegistry()
            reg.__bases__ = (gen, other)
            w['gen'] = gen
        w['reg'], w['other'] = reg, other
        w['f_old'] = _Fac('old', fire if (pt == 'factory' and hooked) else None)
        w['f_new'] = _Fac('new')
        w['f_named'] = _Fac('named')
        w['f_base'] = _Fac('base')
        w['s_old'] = _Fac('s-old', fire if (pt == 'factory' and hooked) else None)
        w['s_new'] = _Fac('s-new')
        reg.register([w['IR0']], w['P'], '', w['f_old'])
        reg.register([w['IR0'], w['IR0']], w['P'], '', w['f_old'])
        w['IZ'] = InterfaceClass('IZ', (Interface,), {}, __module__=mod)
        w['f_z'] = _Fac('z')
        w['zob'] = implementer(w['IZ'])(type('Z', (object,), {}))()
        reg.register([w['IZ']], w['P'], '', w['f_z'])
        reg.register([w['IR0']], w['Q'], '', w['f_named'])
        reg.subscribe([w['IR0']], w['P'], w['s_old'])
        other.register([w['IR0']], w['P'], 'n', w['f_base'])
        return w

    def mutate(w):
        reg = w['reg']
        if mu == 'register-more-specific':
            reg.register([w['IR1']], w['P'], '', w['f_new'])
            reg.register([w['IR1'], w['IR0']], w['P'], '', w['f_new'])
        elif mu == 'unregister':
            reg.unregister([w['IR0']], w['P'], '')
            reg.unregister([w['IR0'], w['IR0']], w['P'], '')
        elif mu == 'subscribe':
            reg.subscribe([w['IR1']], w['P'], w['s_new'])
        elif mu == 'changed-only':
            reg._v_lookup.changed(None)
        elif mu == 'rebase':
            reg.__bases__ = (w['other'],) if 'gen' not in w else (w['gen'], w['other'])
        elif mu == 'only-looks-up-another-specification':
            reg.lookup1(w['IZ'], w['P'], '')
            reg.queryAdapter(w['zob'], w['P'], '')
            reg.lookup([w['IZ']], w['P'], '')
        else:
            reg.register([w['IR1']], w['P'], '', w['f_new'])
            reg.lookup([w['IR0']], w['Q'], '')            # a re-entrant lookup of another key fills the fresh caches

    class LazySeq(list):
        def __iter__(self):
            fire()
            return list.__iter__(self)

        def __len__(self):
            return list.__len__(self)

    class EqKey:
        """A required key compared by value: its __eq__ / __hash__ run inside the cache probe."""

        def __init__(self, spec):
            self.spec = spec
            self.__sro__ = spec.__sro__

        def __hash__(self):
            return 7

        def __eq__(self, other):
            fire()
            return isinstance(other, EqKey) and other.spec is self.spec

        def weakref(self, cb=None):
            return self.spec.weakref(cb)

        def subscribe(self, x):
            return self.spec.subscribe(x)

        def unsubscribe(self, x):
            return self.spec.unsubscribe(x)

    class HashName(str):
        def __hash__(self):
            fire()
            return str.__hash__(self)

    def call(w, hooked):
        reg, P, ob = w['reg'], w['P'], w['ob']
        spec = providedBy(ob) if not (pt == 'providedBy-descriptor' and hooked) else None
        if spec is None:
            from zope.interface.declarations import getObjectSpecification
            spec = getObjectSpecification(ob)
        req = [spec]
        if pt == 'lazy-required' and hooked:
            req = LazySeq(req)
        if pt == 'required-key-eq' and hooked:
            req = [EqKey(spec)]
        name = ''
        if pt == 'name-hash' and hooked:
            name = HashName('')
        if en == 'lookup':
            return _tagval(reg.lookup(req, P, name))
        if en == 'lookup1':
            return _tagval(reg.lookup1(req[0], P, name))
        if en == 'queryAdapter':
            return _tagval(reg.queryAdapter(ob, P, name))
        if en == 'adapter_hook':
            return _tagval(reg.adapter_hook(P, ob, name))
        if en == 'lookupAll':
            return sorted([n, _tagval(v)] for n, v in reg.lookupAll(req, P))
        if en == 'names':
            return sorted(reg.names(req, P))
        if en == 'subscriptions':
            return _tagval(list(reg.subscriptions(req, P)))
        if en == 'queryMultiAdapter':
            objs = [ob, ob]
            if pt == 'lazy-required' and hooked:
                objs = LazySeq(objs)
            return _tagval(reg.queryMultiAdapter(objs, P, name))
        objs = [ob]
        if pt == 'lazy-required' and hooked:
            objs = LazySeq(objs)
        return _tagval(list(reg.subscribers(objs, P)))

    out = {}
    # reference answers on twin registries without interruption
    wb = world(False)
    out['before'] = call(wb, False)
    wa = world(False)
    mutate(wa)
    out['after'] = call(wa, False)

    w = world(True)
    reg = w['reg']
    if RE_WARM[warm] == 'warm-other-key':
        reg.lookup([w['IR0']], w['Q'], '')
        reg.lookupAll([w['IR0']], w['Q'])
        reg.subscriptions([w['IR0']], w['Q'])
    elif RE_WARM[warm] == 'warm-same-key-then-changed':
        state['hook'] = None
        call(w, True)
        reg._v_lookup.changed(None)
    if pt == 'value-destructor':
        # a cached answer whose destructor looks something up while the caches are being released
        class Dying:
            def __init__(self, reg, w):
                self.reg, self.w = reg, w

            def __del__(self):
                try:
                    self.reg.lookup([self.w['IR0']], self.w['Q'], '')
                except Exception:   # noqa
                    pass

            def __call__(self, *a):
                return None
        reg.register([w['IR0']], w['Q'], 'dying', Dying(reg, w))
        reg.lookup([w['IR0']], w['Q'], 'dying')
        reg.unregister([w['IR0']], w['Q'], 'dying')     # the cache entry now holds the last reference
        state['hook'] = lambda: mutate(w)
        state['fired'] = False
        # fire from inside the uncached lookup so that changed() releases the cache that holds the dying value
        pt_saved = pt
    state['hook'] = lambda: mutate(w)
    state['fired'] = False
    gc.collect()
    probes = [w['IR0'], w['IR1'], w['P'], w['f_old'], providedBy(w['ob']) if pt != 'providedBy-descriptor' else w['IR1']]
    if 'gen' in w:
        probes.append(w['gen'])
    try:
        if pt == 'value-destructor':
            # interruption point: the uncached lookup mutates; releasing the caches runs the destructor, which re-enters
            state_pt = 'uncached-before'
            HookedLookup_pt = state_pt
        out['result'] = call(w, True) if pt != 'value-destructor' else _value_destructor_call(call, w, fire, HookedLookup, reg)
        out['exception'] = None
    except Exception as e:   # noqa
        out['result'] = None
        out['exception'] = type(e).__name__ + ': ' + str(e)[:80]
    out['fired'] = state['fired']
    out['witness_dirty'] = [repr(d)[:80] for d in state['witness'] if len(d)]
    state['hook'] = None
    try:
        out['second'] = call(w, True)
    except Exception as e:   # noqa
        out['second'] = _exc(e)
    if not state['fired']:
        # the callback point was not reached on this path (e.g. answered from a cache): apply the mutation now so
        # that 'second' is comparable, and say so
        return None
    # reference balance: repeat the interrupted call on the same registry, then release everything
    reg._v_lookup.changed(None)
    gc.collect()
    base = [sys.getrefcount(p) for p in probes]
    R = 20
    for _ in range(R):
        state['hook'] = lambda: reg._v_lookup.changed(None)
        state['fired'] = False
        try:
            call(w, True)
        except Exception:   # noqa
            pass
        if 'gen' in w:
            # changed() itself reads the generations: re-enter it from there
            state['fired'] = False
            try:
                reg._v_lookup.changed(None)
            except Exception:   # noqa
                pass
    state['hook'] = None
    state['witness'] = []
    reg._v_lookup.changed(None)
    gc.collect()
    after = [sys.getrefcount(p) for p in probes]
    out['refcount_growth'] = max(a - b for a, b in zip(after, base))
    return out


def _reent_error_path(flav, en):
    """Every entry point called with an unhashable `provided`: TypeError from the cache probe; nothing may leak."""
    import gc
    import sys
    from zope.interface import Interface, implementer, providedBy
    from zope.interface.adapter import AdapterRegistry, VerifyingAdapterRegistry
    from zope.interface.interface import InterfaceClass
    IR = InterfaceClass('IR', (Interface,), {}, __module__='vp_reent')
    K = implementer(IR)(type('K', (object,), {}))
    ob = K()
    reg = (AdapterRegistry if flav == 0 else VerifyingAdapterRegistry)()
    reg.register([IR], IR, '', 'x')
    spec = providedBy(ob)

    class Lazy(list):
        pass

    def call():
        P = []
        if en == 'lookup':
            return reg.lookup(Lazy([spec]), P, '')
        if en == 'lookup1':
            return reg.lookup1(spec, P, '')
        if en == 'queryAdapter':
            return reg.queryAdapter(ob, P, '')
        if en == 'adapter_hook':
            return reg.adapter_hook(P, ob, '')
        if en == 'lookupAll':
            return reg.lookupAll(Lazy([spec]), P)
        if en == 'names':
            return reg.names(Lazy([spec]), P)
        if en == 'subscriptions':
            return reg.subscriptions(Lazy([spec]), P)
        if en == 'queryMultiAdapter':
            return reg.queryMultiAdapter(Lazy([ob, ob]), P, '')
        return reg.subscribers(Lazy([ob]), P)
    out = dict(before='TypeError', after='TypeError', fired=True, witness_dirty=[])
    try:
        r = call()
        out['result'], out['exception'] = repr(r), None
    except TypeError:
        out['result'], out['exception'] = 'TypeError', None
    except Exception as e:   # noqa
        out['result'], out['exception'] = None, type(e).__name__
    out['second'] = 'TypeError'
    gc.collect()
    probes = [spec, IR, ob]
    base = [sys.getrefcount(p) for p in probes]
    for _ in range(20):
        try:
            call()
        except Exception:   # noqa
            pass
    gc.collect()
    out['refcount_growth'] = max(sys.getrefcount(p) - b for p, b in zip(probes, base))
    return out


def _reent_super_self(flav, en):
    """A subclass of super whose __self__ is computed: the object handed to the factory must be alive."""
    from zope.interface import Interface, implementer
    from zope.interface.adapter import AdapterRegistry, VerifyingAdapterRegistry
    from zope.interface.interface import InterfaceClass
    IR = InterfaceClass('IR', (Interface,), {}, __module__='vp_reent')
    IP = InterfaceClass('IP', (Interface,), {}, __module__='vp_reent')
    K = implementer(IR)(type('K', (object,), {}))
    K2 = type('K2', (K,), {})

    class Fresh:
        marker = 'fresh-object'

    class S(super):
        @property
        def __self__(self):
            return Fresh()            # a temporary nobody else holds

    seen = []

    def factory(*obs):
        junk = [dict() for _ in range(40)]     # noqa: F841 - recycle whatever memory was just released
        seen.append([getattr(type(o), '__name__', '?') for o in obs])
        return ('made', 'f')
    reg = (AdapterRegistry if flav == 0 else VerifyingAdapterRegistry)()
    reg.register([IR], IP, '', factory)
    reg.register([IR, IR], IP, '', factory)
    k = K2()
    out = dict(before=['made', 'f'], after=['made', 'f'], fired=True, witness_dirty=[], refcount_growth=0)
    try:
        for _ in range(5):
            s = S(K2, k)
            if en == 'queryAdapter':
                r = reg.queryAdapter(s, IP, '')
            elif en == 'adapter_hook':
                r = reg.adapter_hook(IP, s, '')
            else:
                r = reg.queryMultiAdapter([s, S(K2, k)], IP, '')
        out['result'], out['exception'] = _tagval(list(r)) if r is not None else None, None
    except Exception as e:   # noqa
        out['result'], out['exception'] = None, type(e).__name__ + ': ' + str(e)[:80]
    out['second'] = out['after']
    bad = [x for x in seen if any(n != 'Fresh' for n in x)]
    if bad:
        out['witness_dirty'] = ['the factory received %r instead of the object computed by __self__' % (bad[0],)]
    return out


def _reent_uncached_raises(flav, en):
    """The uncached method raises after an earlier answer for the same provided interface was cached: once the
    caches are released nothing cached may stay referenced (the owned cache reference is released on the error path)."""
    import gc
    import sys
    from zope.interface import Interface, implementer, providedBy
    from zope.interface.adapter import (AdapterLookup, AdapterRegistry, VerifyingAdapterLookup, VerifyingAdapterRegistry)
    from zope.interface.interface import InterfaceClass
    base_lookup = AdapterLookup if flav == 0 else VerifyingAdapterLookup
    boom = [False]

    class HookedLookup(base_lookup):
        def _uncached_lookup(self, required, provided, name=''):
            if boom[0]:
                raise RuntimeError('uncached')
            return base_lookup._uncached_lookup(self, required, provided, name)

        def _uncached_lookupAll(self, required, provided):
            if boom[0]:
                raise RuntimeError('uncached')
            return base_lookup._uncached_lookupAll(self, required, provided)

        def _uncached_subscriptions(self, required, provided):
            if boom[0]:
                raise RuntimeError('uncached')
            return base_lookup._uncached_subscriptions(self, required, provided)

    class Reg(AdapterRegistry if flav == 0 else VerifyingAdapterRegistry):
        LookupClass = HookedLookup
    IR = InterfaceClass('IR', (Interface,), {}, __module__='vp_reent')
    IR2 = InterfaceClass('IR2', (Interface,), {}, __module__='vp_reent')
    IP = InterfaceClass('IP', (Interface,), {}, __module__='vp_reent')
    K = implementer(IR)(type('K', (object,), {}))
    K2 = implementer(IR2)(type('K2', (object,), {}))
    ob, ob2 = K(), K2()
    probe = _Fac('probe')
    reg = Reg()
    gc.collect()
    base = sys.getrefcount(probe)
    reg.register([IR], IP, '', probe)
    reg.register([IR, IR], IP, '', probe)
    reg.subscribe([IR], IP, probe)

    def call(o):
        spec = providedBy(o)
        if en == 'lookup':
            return reg.lookup([spec], IP, '')
        if en == 'lookup1':
            return reg.lookup1(spec, IP, '')
        if en == 'queryAdapter':
            return reg.queryAdapter(o, IP, '')
        if en == 'adapter_hook':
            return reg.adapter_hook(IP, o, '')
        if en == 'lookupAll':
            return reg.lookupAll([spec], IP)
        if en == 'names':
            return reg.names([spec], IP)
        if en == 'subscriptions':
            return reg.subscriptions([spec], IP)
        if en == 'queryMultiAdapter':
            return reg.queryMultiAdapter([o, o], IP, '')
        return reg.subscribers([o], IP)
    out = dict(before='ok', after='ok', fired=True, witness_dirty=[], result='ok', second='ok', exception=None)
    call(ob)                       # caches an answer that references `probe`
    boom[0] = True
    raised = 0
    for _ in range(10):
        try:
            call(ob2)              # same provided interface, another key: cache miss, the uncached method raises
        except RuntimeError:
            raised += 1
    boom[0] = False
    if raised != 10:
        out['exception'] = 'the error raised by the uncached method did not propagate (%d of 10)' % raised
    reg.unregister([IR], IP, '')
    reg.unregister([IR, IR], IP, '')
    reg.unsubscribe([IR], IP, probe)
    reg._v_lookup.changed(None)
    gc.collect()
    out['refcount_growth'] = (sys.getrefcount(probe) - base) * 5     # any surviving reference is a leak
    return out


def _reent_destructor(flav, en):
    """A factory whose last reference is held by the lookup cache has a destructor that repeats the lookup.  The
    registration is replaced; changed() - the last step of the mutator - releases the caches, the destructor runs from
    inside that release and must be answered from the *new* state (never from the cache being thrown away)."""
    import gc
    from zope.interface import Interface, implementer, providedBy
    from zope.interface.adapter import AdapterRegistry, VerifyingAdapterRegistry
    from zope.interface.interface import InterfaceClass
    IR = InterfaceClass('IR', (Interface,), {}, __module__='vp_reent')
    IP = InterfaceClass('IP', (Interface,), {}, __module__='vp_reent')
    K = implementer(IR)(type('K', (object,), {}))
    ob = K()
    spec = providedBy(ob)
    cls = AdapterRegistry if flav == 0 else VerifyingAdapterRegistry
    seen = []

    def call(reg):
        if en == 'lookup':
            return _tagval(reg.lookup([spec], IP, ''))
        if en == 'lookup1':
            return _tagval(reg.lookup1(spec, IP, ''))
        if en == 'queryAdapter':
            return _tagval(reg.queryAdapter(ob, IP, ''))
        if en == 'adapter_hook':
            return _tagval(reg.adapter_hook(IP, ob, ''))
        if en == 'lookupAll':
            return sorted([n, _tagval(v)] for n, v in reg.lookupAll([spec], IP))
        if en == 'names':
            return sorted(reg.names([spec], IP))
        if en == 'subscriptions':
            return _tagval(list(reg.subscriptions([spec], IP)))
        if en == 'queryMultiAdapter':
            return _tagval(reg.queryMultiAdapter([ob, ob], IP, ''))
        return _tagval(list(reg.subscribers([ob], IP)))

    class DyingFac(_Fac):
        reg = None

        def __del__(self):
            try:
                seen.append(call(self.reg))
            except Exception as e:   # noqa
                seen.append(_exc(e))

    kind = 'multi' if en == 'queryMultiAdapter' else ('subs' if en in ('subscriptions', 'subscribers') else 'single')

    def populate(reg, fac):
        # exactly one registration, so that after its replacement the lookup cache holds the last reference
        if kind == 'single':
            reg.register([IR], IP, '', fac)
        elif kind == 'multi':
            reg.register([IR, IR], IP, '', fac)
        else:
            reg.subscribe([IR], IP, fac)

    twin = cls()
    if kind != 'subs':
        populate(twin, _Fac('new'))
    after = call(twin)
    reg = cls()
    old = DyingFac('old')
    old.reg = reg
    populate(reg, old)
    warm = call(reg)
    del old
    gc.collect()
    new = _Fac('new')
    out = dict(before=after, after=after, fired=True, witness_dirty=[], refcount_growth=0, exception=None)
    try:
        # one mutation: the registry drops its reference, changed() - its last step - releases the cache holding the last one
        if kind == 'single':
            reg.register([IR], IP, '', new)
        elif kind == 'multi':
            reg.register([IR, IR], IP, '', new)
        else:
            reg.unsubscribe([IR], IP)
        gc.collect()
    except Exception as e:   # noqa
        out['exception'] = type(e).__name__ + ': ' + str(e)[:80]
    if not seen:
        return None          # the factory did not die inside the mutator (nothing to check on this entry point)
    out['result'] = seen[-1]
    out['warm'] = warm
    try:
        out['second'] = call(reg)
    except Exception as e:   # noqa
        out['second'] = _exc(e)
    junk = [dict() for _ in range(50)]      # noqa: F841 - touch the dict free list: a corrupted one crashes here
    del junk
    gc.collect()
    return out


def _value_destructor_call(call, w, fire, HookedLookup, reg):
    # the mutation is fired from the uncached lookup of the interrupted call (point 'uncached-before' semantics)
    orig = HookedLookup._uncached_lookup

    def patched(self, required, provided, name=''):
        fire()
        return orig(self, required, provided, name)
    HookedLookup._uncached_lookup = patched
    try:
        return call(w, True)
    finally:
        HookedLookup._uncached_lookup = orig


FAMILIES['reent'] = run_reent


# ---------------------------------------------------------------------------
# family 'preempt': a mutator thread scheduled at the k-th line boundary inside the Python lookup code
# ---------------------------------------------------------------------------
# Under the GIL a thread switch can fall between any two bytecodes of *Python* code; the uncached lookups (`_uncached_lookup`,
# `_lookup`, `_lookupAll`, `_subscriptions`, ...) are Python in both builds.  The schedule "the lookup thread runs up to its k-th line
# event inside zope/interface/adapter.py, the mutator thread then runs one whole mutator call, the lookup thread resumes" is made
# deterministic with a trace function: k is the schedule variable.

PE_ENTRY = ['lookup((IR1,), IP)', 'lookupAll((IR1,), IP)', 'subscriptions((IR1,), IP)', 'lookup((IR1, IR1), IP)', "lookup((IR1,), IP, 'n')",
            'lookupAll((IR1, IR1), IP)', 'subscriptions((IR1, IR1), IP)']
PE_MUT = ["unregister([IX], IPc, '')  (last registration providing IPc)", "unregister([IR0, IR0], IP, '')  (last registration of arity 2)",
          "register([IR1], IP, '', 'new')", "unsubscribe([IR1], IPb, 's2')", "subscribe([IR1], IP, 's3')",
          "unregister([IR0], IPb, '')  (the registration that answers)", "register([IR0], IPb, 'n', 'named')",
          "unsubscribe([IR0], IP, None)  (every subscriber under that key)",
          "unsubscribe([IR0, IR0], IP, 's22')  (last subscription of arity 2)"]


def run_preempt(program):
    """program = (flavour, entry, mutation, k).  Returns None when the lookup has fewer than k+1 line events in adapter.py."""
    import sys
    (flav, entry, mut, k) = program
    from zope.interface import Interface
    from zope.interface import adapter as A
    from zope.interface.interface import InterfaceClass
    files = {A.__file__}

    def world():
        w = {}
        mod = 'vp_preempt'
        for nm, bases in (('IR0', ()), ('IR1', ('IR0',)), ('IX', ()), ('IP', ()), ('IPc', ('IP',)), ('IPb', ('IP',)), ('IPd', ('IP',))):
            w[nm] = InterfaceClass(nm, tuple(w[b] for b in bases) or (Interface,), {}, __module__=mod)
        reg = (A.AdapterRegistry if flav == 0 else A.VerifyingAdapterRegistry)()
        # registration order chosen so that the interfaces extending IP are walked as [IPc, IPb, IPd]: the answering one sits between
        # two others, whichever direction a collector walks
        reg.register([w['IX']], w['IPd'], '', 'Dx')
        reg.register([w['IR0']], w['IPb'], '', 'B')
        reg.register([w['IX']], w['IPc'], '', 'Cx')
        reg.register([w['IR0'], w['IR0']], w['IP'], '', 'two')
        reg.subscribe([w['IR0']], w['IP'], 's1')
        reg.subscribe([w['IR1']], w['IPb'], 's2')
        reg.subscribe([w['IR0'], w['IR0']], w['IP'], 's22')
        w['reg'] = reg
        return w

    def mutate(w):
        reg = w['reg']
        m = mut
        if m == 0:
            reg.unregister([w['IX']], w['IPc'], '')
        elif m == 1:
            reg.unregister([w['IR0'], w['IR0']], w['IP'], '')
        elif m == 2:
            reg.register([w['IR1']], w['IP'], '', 'new')
        elif m == 3:
            reg.unsubscribe([w['IR1']], w['IPb'], 's2')
        elif m == 4:
            reg.subscribe([w['IR1']], w['IP'], 's3')
        elif m == 5:
            reg.unregister([w['IR0']], w['IPb'], '')
        elif m == 6:
            reg.register([w['IR0']], w['IPb'], 'n', 'named')
        elif m == 7:
            reg.unsubscribe([w['IR0']], w['IP'], None)
        else:
            reg.unsubscribe([w['IR0'], w['IR0']], w['IP'], 's22')

    def call(w):
        reg = w['reg']
        if entry == 0:
            return reg.lookup((w['IR1'],), w['IP'])
        if entry == 1:
            return sorted(list(x) for x in reg.lookupAll((w['IR1'],), w['IP']))
        if entry == 2:
            return list(reg.subscriptions((w['IR1'],), w['IP']))
        if entry == 3:
            return reg.lookup((w['IR1'], w['IR1']), w['IP'])
        if entry == 5:
            return sorted(list(x) for x in reg.lookupAll((w['IR1'], w['IR1']), w['IP']))
        if entry == 6:
            return list(reg.subscriptions((w['IR1'], w['IR1']), w['IP']))
        return reg.lookup((w['IR1'],), w['IP'], 'n')
    wb = world()
    before = call(wb)
    wa = world()
    mutate(wa)
    after = call(wa)
    w = world()
    state = dict(count=0, fired=False, where=None)

    def local(frame, event, arg):
        if event == 'line' and not state['fired']:
            if state['count'] == k:
                state['fired'] = True
                state['where'] = '%s:%d' % (frame.f_code.co_name, frame.f_lineno)
                sys.settrace(None)
                try:
                    mutate(w)
                finally:
                    sys.settrace(tracer)
            state['count'] += 1
        return local

    def tracer(frame, event, arg):
        if frame.f_code.co_filename in files:
            return local
        return None
    out = dict(before=before, after=after, exception=None, result=None)
    sys.settrace(tracer)
    try:
        try:
            out['result'] = call(w)
        except Exception as e:   # noqa
            out['exception'] = '%s: %s' % (type(e).__name__, str(e)[:100])
    finally:
        sys.settrace(None)
    if not state['fired']:
        return None
    out['where'] = state['where']
    try:
        out['second'] = call(w)
    except Exception as e:   # noqa
        out['second'] = _exc(e)
    return out


FAMILIES['preempt'] = run_preempt


# ---------------------------------------------------------------------------
# family 'during': a mutation made from inside a looked-up specification's subscribe() while the lookup is in progress (props.C05)
# ---------------------------------------------------------------------------

def run_during_trace(program):
    """program = [flavour 0/1, entry, mutation, other-key-cached]: trace = the interrupted answer and the repeated answer."""
    from props import C05
    flav, entry, mut, warm = program
    return C05.run_during(('adapter', 'verifying')[flav], entry, mut, warm, trace=True)


FAMILIES['during'] = run_during_trace
