"""Engine B: z3 term generated from a Python function's AST (loop-free subset).

Supported: If / Return / Assign to a local / Expr(docstring) / Pass;
Compare (chained, < <= > >= == != is is-not on ints / None), BoolOp, Not,
truthiness of leaves, len(<leaf>), <param>['key'] leaves, int and str
constants, module-level string constants, + and - on ints.
Anything else raises Unsupported => the obligation is inconclusive.

A *leaf* is `param['key']`; `leaf_fn(param, key, mode)` supplies the z3
term for mode 'len' (Int), 'truth' (Bool).
Return values are encoded as Int: 0 = None, k>0 = index of a distinct
constant (strings table).
"""
import ast
import inspect
import textwrap

import z3


class Unsupported(Exception):
    pass


class Encoder:
    def __init__(self, fn, leaf_fn):
        self.fn = fn
        self.src = textwrap.dedent(inspect.getsource(fn))
        self.tree = ast.parse(self.src).body[0]
        assert isinstance(self.tree, ast.FunctionDef)
        self.params = [a.arg for a in self.tree.args.args]
        self.leaf_fn = leaf_fn
        self.globals = fn.__globals__
        self.consts = {}  # python constant -> int code
        self.nodes = 0

    # -- values: ('int', term) | ('bool', term) | ('none',) | ('const', code) | ('leaf', p, k)
    def code_of(self, value):
        if value is None:
            return 0
        if value not in self.consts:
            self.consts[value] = len(self.consts) + 1
        return self.consts[value]

    def expr(self, node, env):
        self.nodes += 1
        if isinstance(node, ast.Constant):
            v = node.value
            if v is None:
                return ('none',)
            if isinstance(v, bool):
                return ('bool', z3.BoolVal(v))
            if isinstance(v, int):
                return ('int', z3.IntVal(v))
            if isinstance(v, str):
                return ('const', self.code_of(v))
            raise Unsupported('constant %r' % (v,))
        if isinstance(node, ast.Name):
            if node.id in env:
                return env[node.id]
            if node.id in self.globals and isinstance(self.globals[node.id], str):
                return ('const', self.code_of(self.globals[node.id]))
            raise Unsupported('name %s' % node.id)
        if isinstance(node, ast.Subscript):
            if (isinstance(node.value, ast.Name) and node.value.id in self.params
                    and isinstance(node.slice, ast.Constant) and isinstance(node.slice.value, str)):
                return ('leaf', node.value.id, node.slice.value)
            raise Unsupported('subscript')
        if isinstance(node, ast.Call):
            if isinstance(node.func, ast.Name) and node.func.id == 'len' and len(node.args) == 1 \
                    and not node.keywords:
                v = self.expr(node.args[0], env)
                if v[0] == 'leaf':
                    return ('int', self.leaf_fn(v[1], v[2], 'len'))
            raise Unsupported('call')
        if isinstance(node, ast.Compare):
            left = self.expr(node.left, env)
            terms = []
            for op, right_n in zip(node.ops, node.comparators):
                right = self.expr(right_n, env)
                terms.append(self.compare(op, left, right))
                left = right
            return ('bool', z3.And(*terms) if len(terms) > 1 else terms[0])
        if isinstance(node, ast.BoolOp):
            vals = [self.truth(self.expr(v, env)) for v in node.values]
            if isinstance(node.op, ast.And):
                return ('bool', z3.And(*vals))
            return ('bool', z3.Or(*vals))
        if isinstance(node, ast.UnaryOp) and isinstance(node.op, ast.Not):
            return ('bool', z3.Not(self.truth(self.expr(node.operand, env))))
        if isinstance(node, ast.BinOp) and isinstance(node.op, (ast.Add, ast.Sub)):
            a, b = self.expr(node.left, env), self.expr(node.right, env)
            if a[0] == 'int' and b[0] == 'int':
                return ('int', a[1] + b[1] if isinstance(node.op, ast.Add) else a[1] - b[1])
        raise Unsupported(type(node).__name__)

    def truth(self, v):
        if v[0] == 'bool':
            return v[1]
        if v[0] == 'int':
            return v[1] != 0
        if v[0] == 'none':
            return z3.BoolVal(False)
        if v[0] == 'const':
            inv = {c: k for k, c in self.consts.items()}
            return z3.BoolVal(bool(inv[v[1]]))
        if v[0] == 'leaf':
            return self.leaf_fn(v[1], v[2], 'truth')
        if v[0] == 'ret':
            return v[1] != 0
        raise Unsupported('truth of %r' % (v[0],))

    def compare(self, op, a, b):
        if a[0] == 'int' and b[0] == 'int':
            x, y = a[1], b[1]
            if isinstance(op, ast.Lt):
                return x < y
            if isinstance(op, ast.LtE):
                return x <= y
            if isinstance(op, ast.Gt):
                return x > y
            if isinstance(op, ast.GtE):
                return x >= y
            if isinstance(op, ast.Eq):
                return x == y
            if isinstance(op, ast.NotEq):
                return x != y
        raise Unsupported('compare %s on %s,%s' % (type(op).__name__, a[0], b[0]))

    # -- statements: returns z3 Int term for the return code, or None if falls through
    def block(self, stmts, env, rest_value):
        """Symbolically execute stmts; rest_value = return code if control falls off the end."""
        if not stmts:
            return rest_value
        s, rest = stmts[0], stmts[1:]
        self.nodes += 1
        if isinstance(s, ast.Expr) and isinstance(s.value, ast.Constant):
            return self.block(rest, env, rest_value)
        if isinstance(s, ast.Pass):
            return self.block(rest, env, rest_value)
        if isinstance(s, ast.Return):
            if s.value is None:
                return z3.IntVal(0)
            v = self.expr(s.value, env)
            if v[0] == 'none':
                return z3.IntVal(0)
            if v[0] == 'const':
                return z3.IntVal(v[1])
            raise Unsupported('return of %s' % v[0])
        if isinstance(s, ast.Assign) and len(s.targets) == 1 and isinstance(s.targets[0], ast.Name):
            env2 = dict(env)
            env2[s.targets[0].id] = self.expr(s.value, env)
            return self.block(rest, env2, rest_value)
        if isinstance(s, ast.If):
            for sub in ast.walk(s):
                if isinstance(sub, (ast.Assign, ast.AugAssign)):
                    raise Unsupported('assignment inside a branch')
            c = self.truth(self.expr(s.test, env))
            after = self.block(rest, env, rest_value)
            t = self.block(s.body, env, after)
            e = self.block(s.orelse, env, after)
            return z3.If(c, t, e)
        raise Unsupported('statement %s' % type(s).__name__)

    def encode(self):
        return self.block(self.tree.body, {}, z3.IntVal(0))
