"""Sibling process for the C10 differential: executes trace programs on the other build.
Protocol: one JSON object per line on stdin {"family":..., "program":...} -> one JSON line on stdout."""
import json
import os
import sys


def main():
    impl = sys.argv[1]
    sys.path.insert(0, os.path.dirname(os.path.dirname(os.path.abspath(__file__))))
    from vlib import boot
    boot.select(impl)
    from vlib import traceprog
    out = sys.stdout
    out.write(json.dumps(dict(ready=impl)) + '\n')
    out.flush()
    for line in sys.stdin:
        line = line.strip()
        if not line:
            continue
        req = json.loads(line)
        try:
            tr = traceprog.execute(req['family'], req['program'])
            res = dict(trace=tr)
        except BaseException as e:   # the server must survive anything a program does
            res = dict(error='%s: %s' % (type(e).__name__, e))
        out.write(json.dumps(res, default=repr) + '\n')
        out.flush()


if __name__ == '__main__':
    main()
