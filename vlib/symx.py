"""Engine A driver: path-exhaustive symbolic execution of a harness function with
CrossHair's engine (StateSpace / z3), without the CLI's contract machinery.

A *harness* is a plain function with annotated parameters.  It raises
``Violation`` when the property is broken, calls ``assume(cond)`` for
preconditions and ``reached(key, sample)`` when it got to its oracle.

``explore`` runs it path by path on a shared path tree until z3 says no
unexplored feasible branch remains (``exhausted``) or the budget ends.
"""
import inspect
import json
import os
import sys
import time
import traceback
from time import process_time

import crosshair.core_and_libs  # noqa: F401  (registers library patches)
import z3
from crosshair.condition_parser import condition_parser
from crosshair.core import (ExceptionFilter, Patched, deep_realize, gen_args)
from crosshair.options import AnalysisKind
from crosshair.statespace import (CallAnalysis, RootNode, StateSpace,
                                  StateSpaceContext, VerificationStatus)
from crosshair.tracers import COMPOSITE_TRACER, NoTracing, ResumedTracing
from crosshair.util import (CrosshairUnsupported, IgnoreAttempt,
                            NotDeterministic, UnexploredPath)


class Violation(Exception):
    """Raised by a harness when the property's assertion fails."""

    def __init__(self, msg, signature=None, detail=None):
        Exception.__init__(self, msg)
        self.msg = msg
        self.signature = signature  # classify(): names failing input class
        self.detail = detail


class _KnownHit(Exception):
    pass


class Collector:
    """Lets a harness keep checking after a deviation that is a listed (open) known finding:
    `report` raises at once for anything else, stashes known ones; `finish` re-raises the first
    stashed one so the path is still counted as a known hit.  Without this a known finding that
    shows early on a path would mask every later assertion of that path."""

    def __init__(self):
        self.stash = None

    def report(self, msg, signature=None):
        if signature in KNOWN_SIGNATURES:
            if self.stash is None:
                self.stash = Violation(msg, signature=signature)
            return
        raise Violation(msg, signature=signature)

    def finish(self):
        if self.stash is not None:
            raise self.stash


def assume(cond):
    """Precondition: prune this path when false (placed before the code it constrains)."""
    if not cond:
        raise IgnoreAttempt("assume")


def pick(x, n):
    """Deterministic decoding of a selector: exactly one path per value in
    range(n), found by bisection (about log2(n) branch decisions); values below 0
    are absorbed by the first arm and values >= n by the last."""
    lo, hi = 0, n
    while hi - lo > 1:
        mid = (lo + hi) // 2
        if x < mid:
            hi = mid
        else:
            lo = mid
    return lo


def pick_in(x, n):
    """Like pick, but out-of-range values are pruned (precondition 0<=x<n)."""
    for v in range(n):
        if x == v:
            return v
    raise IgnoreAttempt("pick_in")


# --- per-path context -------------------------------------------------------

class _Ctx:
    def __init__(self):
        self.reset()

    def reset(self):
        self.reached = False
        self.key = None
        self.sample = None
        self.twin_hits = 0


CTX = _Ctx()
SYMBOLIC = False  # True while running under the engine
KNOWN_SIGNATURES = set()  # open known-finding signatures: excluded from the search


def native(fn, *a, **kw):
    """Run fn on concrete (already decoded) data without tracing overhead."""
    if SYMBOLIC:
        with NoTracing():
            return fn(*a, **kw)
    return fn(*a, **kw)


def reached(key=None, sample=None):
    """Called by a harness when the oracle was reached on a non-trivial case."""
    CTX.reached = True
    CTX.key = key
    CTX.sample = sample


# --- solver statistics ------------------------------------------------------

class _SolverStats:
    queries = 0
    seconds = 0.0
    unknown = 0


_orig_check = z3.Solver.check


def _timed_check(self, *a, **kw):
    t0 = time.perf_counter()
    r = _orig_check(self, *a, **kw)
    _SolverStats.seconds += time.perf_counter() - t0
    _SolverStats.queries += 1
    if r == z3.unknown:
        _SolverStats.unknown += 1
    return r


z3.Solver.check = _timed_check


def _jsonable(v):
    try:
        json.dumps(v)
        return v
    except Exception:
        if isinstance(v, (list, tuple)):
            return [_jsonable(x) for x in v]
        if isinstance(v, dict):
            return {str(k): _jsonable(x) for k, x in v.items()}
        return repr(v)


def explore(fn, budget_s=60.0, per_path_timeout=20.0, max_violations=3,
            max_samples=4, seed=0, count_keys=True, stop_on_violation=False):
    """Explore ``fn`` symbolically.  Returns a stats dict."""
    global SYMBOLIC
    sig = inspect.signature(fn)
    root = RootNode()
    start = process_time()
    wall0 = time.time()
    q0, s0, u0 = _SolverStats.queries, _SolverStats.seconds, _SolverStats.unknown
    st = dict(paths=0, confirmed=0, ignored=0, unknown=0, reached=0,
              exhausted=False, violations=[], samples=[], errors=[],
              distinct=0, budget_s=budget_s, known={})
    keys = set()
    it = 0
    while True:
        it += 1
        now = process_time()
        if now > start + budget_s:
            break
        space = StateSpace(execution_deadline=now + per_path_timeout,
                           model_check_timeout=per_path_timeout / 2,
                           search_root=root)
        CTX.reset()
        breakout = False
        with condition_parser([AnalysisKind.PEP316]), Patched(), COMPOSITE_TRACER, \
                NoTracing(), StateSpaceContext(space):
            status = None
            try:
                pre_args = gen_args(sig)
                SYMBOLIC = True
                try:
                    with ExceptionFilter() as ef, ResumedTracing():
                        fn(*pre_args.args, **pre_args.kwargs)
                finally:
                    SYMBOLIC = False
                if ef.user_exc:
                    exc = ef.user_exc[0]
                    if isinstance(exc, NotDeterministic):
                        raise NotDeterministic
                    sig_ = getattr(exc, 'signature', None)
                    if isinstance(exc, Violation) and sig_ in KNOWN_SIGNATURES:
                        # no realisation here: realising unused symbolic arguments would add
                        # decisions below this leaf and the path would be revisited for ever
                        k = st['known'].setdefault(sig_, dict(count=0, args=None, msg=str(exc)[:500]))
                        k['count'] += 1
                        st['confirmed'] += 1
                        if CTX.reached:
                            st['reached'] += 1
                            if count_keys and CTX.key is not None:
                                keys.add(hash(CTX.key))
                        raise _KnownHit
                    real_args = deep_realize(dict(pre_args.arguments))
                    rec = dict(args=_jsonable(real_args), exc_type=type(exc).__name__,
                               msg=str(exc)[:2000],
                               signature=getattr(exc, 'signature', None),
                               is_violation=isinstance(exc, Violation),
                               stack=''.join(ef.user_exc[1].format()[-6:])[-3000:])
                    st['violations'].append(rec)
                    status = VerificationStatus.REFUTED
                    if stop_on_violation or len(st['violations']) >= max_violations:
                        breakout = True
                elif ef.ignore:
                    status = None
                    st['ignored'] += 1
                else:
                    status = VerificationStatus.CONFIRMED
                    st['confirmed'] += 1
                    if CTX.reached:
                        st['reached'] += 1
                        # Realising a symbolic value adds decisions to the path tree, so
                        # samples are only written out for the first few paths and keys
                        # must be concrete (E tier) or None (S tier).
                        if count_keys and CTX.key is not None:
                            keys.add(hash(CTX.key))
                        if CTX.sample is not None and len(st['samples']) < max_samples:
                            st['samples'].append(_jsonable(deep_realize(CTX.sample)))
            except _KnownHit:
                status = VerificationStatus.CONFIRMED
            except IgnoreAttempt:
                status = None
                st['ignored'] += 1
            except UnexploredPath as e:
                status = VerificationStatus.UNKNOWN
                st['unknown'] += 1
                if len(st['errors']) < 5:
                    st['errors'].append('unexplored: %s: %s' % (type(e).__name__, str(e)[:300]))
            except NotDeterministic:
                st['errors'].append('NotDeterministic')
                st['fatal'] = 'NotDeterministic'
                break
            st['paths'] += 1
            _analysis, exhausted = space.bubble_status(CallAnalysis(status))
        if breakout:
            break
        if exhausted:
            st['exhausted'] = True
            break
    st['distinct'] = len(keys) if (count_keys and keys) else st['reached']
    st['cpu_s'] = round(process_time() - start, 3)
    st['wall_s'] = round(time.time() - wall0, 3)
    st['solver_queries'] = _SolverStats.queries - q0
    st['solver_s'] = round(_SolverStats.seconds - s0, 3)
    st['solver_unknown'] = _SolverStats.unknown - u0
    return st
