"""Engine C, functional mode (irfun): path summaries of small C functions of the accelerator, from their LLVM IR.

Where vlib.irsym asks memory-safety questions about the lookup layer (reference counts as z3 terms, havoc), this
executor asks *what a C function computes*: it walks the IR produced by irsym.build_ir() from the current
_zope_interface_coptimizations.c, keeps object identities concrete, keeps the *contents* the function depends on
symbolic (interface names / modules are z3 String terms, the comparison operator is a z3 Int, API outcomes are
decisions), forks at every branch / switch / select whose condition the path condition does not decide, and returns one
summary per feasible path:

    (path condition, returned object or integer, pending exception, ordered event log, reference balance of the frame)

A property module then discharges, per path, `path condition /\\ not(reference formula)` with z3 (unsat = the C
function agrees with the reference for every value on that path), and algebraic laws over the disjunction of all
summaries.  Loops must be bounded by the caller's scenario (list length is concrete); a back edge taken more than
LOOP_BOUND times ends the path as inconclusive.
"""
import re
import time

import z3

from vlib.irsym import parse, _split_top, build_ir  # noqa: F401  (re-exported)

LOOP_BOUND = 6


class P:
    """A C-level object (concrete identity)."""
    _n = 0

    def __init__(self, label, kind='object', immortal=False, **kw):
        P._n += 1
        self.oid = P._n
        self.label, self.kind, self.immortal = label, kind, immortal
        self.fields = {}
        self.frame = 0            # references the analysed frame owns
        self.__dict__.update(kw)

    def __repr__(self):
        return '<%s>' % self.label


class Inconclusive(Exception):
    pass


class Defect(Exception):
    """Something the function must never do on any path (NULL dereference, unbalanced references)."""


class _NeedDecision(Exception):
    pass


class Summary:
    def __init__(self, pc, ret, err, events, balance, decisions):
        self.pc, self.ret, self.err, self.events, self.balance, self.decisions = pc, ret, err, events, balance, decisions

    def describe(self):
        return dict(decisions=self.decisions, ret=repr(self.ret), err=repr(self.err), events=[repr(e) for e in self.events],
                    pc=[str(c)[:200] for c in self.pc])


def cstrings(text):
    """{global name: python str} for the private string constants of the module (`@.str.N = ... c"..\\00"`)."""
    out = {}
    for m in re.finditer(r'^@([\w.]+) = private unnamed_addr constant \[\d+ x i8\] c"(.*)\\00"', text, re.M):
        out[m.group(1)] = re.sub(r'\\([0-9A-Fa-f]{2})', lambda k: chr(int(k.group(1), 16)), m.group(2))
    return out


class FunExec:
    """Depth-first enumeration of the feasible paths of one IR function.

    world: object providing the environment
        world.setup(ex) -> list of argument values for the entry function
        world.stubs     -> {api name: fn(ex, args, site)}
        world.globals   -> {global symbol: value}   (loads of @sym and &sym)
        world.field(ex, base, struct, path) -> initial value of a field that was never stored
    """

    def __init__(self, funcs, entry, world, inline=()):
        self.funcs, self.entry, self.world = funcs, entry, world
        self.inline = set(inline) | {entry}
        self.stats = dict(paths=0, queries=0, solver_s=0.0, inconclusive=[], forks=0)

    # ---- decisions ---------------------------------------------------------------
    def decide(self, what, options):
        if self.pos < len(self.script):
            c = self.script[self.pos]
        else:
            self.script.append(0)
            self.widths.append(len(options))
            c = 0
        self.widths[self.pos] = len(options)
        self.pos += 1
        self.decisions.append('%s -> %s' % (what, options[c]))
        return options[c]

    def feasible(self, *conds):
        t0 = time.perf_counter()
        self.solver.push()
        for c in conds:
            self.solver.add(c)
        r = self.solver.check()
        self.solver.pop()
        self.stats['queries'] += 1
        self.stats['solver_s'] += time.perf_counter() - t0
        if r == z3.unknown:
            raise Inconclusive('solver unknown on a branch condition')
        return r == z3.sat

    def assume(self, c):
        self.pc.append(c)
        self.solver.add(c)

    def fork(self, what, cond):
        """Branch on a z3 Bool: returns a Python bool, adding the chosen side to the path condition."""
        cond = z3.simplify(cond)
        if z3.is_true(cond):
            return True
        if z3.is_false(cond):
            return False
        can_t, can_f = self.feasible(cond), self.feasible(z3.Not(cond))
        if can_t and can_f:
            self.stats['forks'] += 1
            side = self.decide(what, ['true', 'false']) == 'true'
        elif can_t or can_f:
            side = can_t
        else:
            raise Inconclusive('infeasible path reached')
        self.assume(cond if side else z3.Not(cond))
        return side

    # ---- enumeration ---------------------------------------------------------------
    def run_all(self, budget_s=60.0, max_paths=100000):
        t0 = time.time()
        out = []
        self.script, self.widths = [], []
        while True:
            if time.time() - t0 > budget_s or self.stats['paths'] >= max_paths:
                self.stats['exhausted'] = False
                return out
            s = self.run_one()
            self.stats['paths'] += 1
            if s is not None:
                out.append(s)
            while self.script and self.script[-1] + 1 >= self.widths[len(self.script) - 1]:
                self.script.pop()
                self.widths.pop()
            if not self.script:
                self.stats['exhausted'] = True
                return out
            self.script[-1] += 1
            del self.widths[len(self.script):]

    def run_one(self):
        self.pos = 0
        self.decisions, self.events, self.pc = [], [], []
        self.solver = z3.Solver()
        self.solver.set('timeout', 20000)
        self.err = None
        self.objs = []
        self.depth = 0
        try:
            args = self.world.setup(self)
            ret = self.call_internal(self.entry, args)
            bal = {o.label: o.frame for o in self.objs if o.frame != (1 if ret is o else 0)}
            return Summary(list(self.pc), ret, self.err, list(self.events), bal, list(self.decisions))
        except Inconclusive as e:
            if len(self.stats['inconclusive']) < 10:
                self.stats['inconclusive'].append(dict(reason=str(e), decisions=list(self.decisions)))
            self.stats['n_inconclusive'] = self.stats.get('n_inconclusive', 0) + 1
            return None
        except Defect as e:
            return Summary(list(self.pc), ('DEFECT', str(e)), self.err, list(self.events), {}, list(self.decisions))

    def track(self, o):
        self.objs.append(o)
        return o

    # ---- interpreter -----------------------------------------------------------------
    def call_internal(self, name, args):
        f = self.funcs[name]
        self.depth += 1
        if self.depth > 10:
            raise Inconclusive('call depth')
        env = dict(zip(f.params, args))
        block, prev = '%entry', None
        visited = {}
        while True:
            visited[block] = visited.get(block, 0) + 1
            if visited[block] > LOOP_BOUND + 1:
                raise Inconclusive('loop in %s at %s exceeds the unrolling bound %d' % (name, block, LOOP_BOUND))
            nxt = None
            instrs = f.blocks[block]
            i = 0
            while i < len(instrs):
                ins = instrs[i]
                if ins.op == 'switch':
                    # the case lines follow as raw instructions up to the closing bracket
                    cases = []
                    j = i + 1
                    while j < len(instrs) and instrs[j].op in ('raw', 'i32', 'i64'):
                        j += 1
                    text = ins.text + ' ' + ' '.join((x.op + ' ' + x.text) if x.op != 'raw' else x.text for x in instrs[i + 1:j])
                    nxt = self.do_switch(text, env, name)
                    break
                r = self.step(f, ins, env, prev if prev != '%entry' else f.entry_label, name)
                if r is not None:
                    if r[0] == 'br':
                        nxt = r[1]
                        break
                    if r[0] == 'ret':
                        self.depth -= 1
                        return r[1]
                i += 1
            if nxt is None:
                raise Inconclusive('fell off block %s in %s' % (block, name))
            prev, block = block, nxt

    def do_switch(self, text, env, fname):
        m = re.match(r'(i\d+) (\S+), label (%[\w.]+) \[(.*)', text)
        v = self.val(m.group(2), env)
        default = m.group(3)
        cases = [(int(a), b) for a, b in re.findall(r'i\d+ (-?\d+), label (%[\w.]+)', m.group(4))]
        if isinstance(v, int):
            for c, lab in cases:
                if c == v:
                    return lab
            return default
        for c, lab in cases:
            if self.fork('switch %s == %d in %s' % (v, c, fname), v == c):
                return lab
        return default

    def val(self, tok, env):
        tok = tok.strip().rstrip(',')
        if tok in ('null', 'zeroinitializer'):
            return None
        if tok.startswith('%'):
            if tok not in env:
                raise Inconclusive('undefined value %s' % tok)
            return env[tok]
        if re.match(r'^-?\d+$', tok):
            return int(tok)
        if tok in ('true', 'false'):
            return tok == 'true'
        m = re.search(r'@([\w.]+)', tok)
        if m:
            return self.addr_of_global(m.group(1))
        raise Inconclusive('operand %r' % tok)

    def addr_of_global(self, name):
        g = self.world.globals
        if ('&' + name) in g:
            return g['&' + name]
        raise Inconclusive('address of unmodelled global @%s' % name)

    def operand(self, argtext, env):
        a = argtext.strip()
        if 'getelementptr' in a and '(' in a:
            m = re.search(r'@([\w.]+)', a)
            if m and not m.group(1).startswith('.str'):
                return self.addr_of_global(m.group(1))
            return ('cstr', m.group(1) if m else a)
        if a.startswith('bitcast') or ' bitcast (' in a:
            m = re.search(r'bitcast \((.*) to ', a)
            return self.val(m.group(1).split()[-1], env)
        return self.val(a.split()[-1], env)

    def truth(self, c, what):
        if isinstance(c, (bool, int)):
            return bool(c)
        if z3.is_bool(c):
            return self.fork(what, c)
        return self.fork(what, c != 0)

    def step(self, f, ins, env, prev, fname):
        op, t = ins.op, ins.text
        if op == 'icmp':
            pred, rest = t.split(None, 1)
            a, b = [x.strip() for x in _split_top(rest)]
            x = self.operand(a, env)
            y = self.operand(b, env)
            env[ins.dst] = self.compare(pred, x, y)
            return None
        if op == 'br':
            if t.startswith('label'):
                return ('br', t.split()[1].rstrip(','))
            m = re.match(r'i1 (\S+), label (\S+), label (\S+)', t)
            c = self.truth(self.val(m.group(1), env), 'branch in %s' % fname)
            return ('br', m.group(2).rstrip(',') if c else m.group(3))
        if op == 'ret':
            if t.strip() == 'void':
                return ('ret', None)
            return ('ret', self.operand(t, env))
        if op == 'phi':
            for m in re.finditer(r'\[\s*((?:[^\[\],]|\([^)]*\))+),\s*(%[\w.]+)\s*\]', t):
                if m.group(2) == prev:
                    env[ins.dst] = self.operand(m.group(1), env)
                    return None
            raise Inconclusive('phi without matching predecessor %s in %s: %s' % (prev, fname, t[:120]))
        if op in ('bitcast', 'zext', 'sext', 'trunc', 'ptrtoint', 'inttoptr'):
            src = t.split(' to ')[0]
            v = self.val(src.split()[-1], env)
            if op == 'zext' and z3.is_expr(v) and z3.is_bool(v):
                v = z3.If(v, z3.IntVal(1), z3.IntVal(0))
            env[ins.dst] = v
            return None
        if op == 'getelementptr':
            parts = _split_top(t.replace('inbounds ', ''))
            base = self.val(parts[1].split()[-1], env)
            idx = [self.val(p.split()[-1], env) for p in parts[2:]]
            struct = parts[0].strip()
            if isinstance(base, P) and base.kind == 'array':
                env[ins.dst] = ('addr', base, 'elem', (idx[0],))          # pointer arithmetic into an item vector
                return None
            if isinstance(base, tuple) and base[0] == 'addr':
                env[ins.dst] = ('addr', base[1], base[2], base[3] + tuple(idx[1:]))
            else:
                env[ins.dst] = ('addr', base, struct, tuple(idx[1:]))
            return None
        if op == 'alloca':
            env[ins.dst] = P('local %s' % ins.dst, 'cell')       # an address-taken local (out-parameter of an API call)
            env[ins.dst].fields[('', ())] = None
            return None
        if op == 'load':
            parts = _split_top(t)
            src = parts[1].split()[-1]
            if src.startswith('@'):
                g = self.world.globals
                if src[1:] not in g:
                    raise Inconclusive('load of unmodelled global %s' % src)
                env[ins.dst] = g[src[1:]]
                return None
            env[ins.dst] = self.load(self.val(src, env))
            return None
        if op == 'store':
            parts = _split_top(t)
            v = self.operand(parts[0], env)
            self.store(self.val(parts[1].split()[-1], env), v)
            return None
        if op == 'select':
            parts = _split_top(t)
            c = self.truth(self.val(parts[0].split()[-1], env), 'select in %s' % fname)
            env[ins.dst] = self.operand(parts[1], env) if c else self.operand(parts[2], env)
            return None
        if op in ('add', 'sub'):
            parts = _split_top(re.sub(r'^(nsw |nuw )+', '', t))
            a = self.val(parts[0].split()[-1], env)
            b = self.val(parts[1], env)
            env[ins.dst] = a + b if op == 'add' else a - b
            return None
        if op == 'call':
            m = re.search(r'@([\w.]+)\((.*)\)\s*(#\d+)?$', t)
            if not m:
                raise Inconclusive('indirect call: %s' % t[:80])
            name = m.group(1)
            args = [self.operand(a, env) for a in _split_top(m.group(2))]
            r = self.call(name, args, '%s:%s' % (fname, ins.dst or name))
            if ins.dst:
                env[ins.dst] = r
            return None
        if op == 'unreachable':
            raise Inconclusive('unreachable reached')
        raise Inconclusive('instruction %s %s' % (op, t[:60]))

    def compare(self, pred, x, y):
        if isinstance(x, P) or isinstance(y, P) or x is None or y is None or isinstance(x, tuple) or isinstance(y, tuple):
            if isinstance(x, tuple) and x[0] == 'addr' and not x[3]:
                x = x[1]
            if isinstance(y, tuple) and y[0] == 'addr' and not y[3]:
                y = y[1]
            eq = (x is y)
            if pred == 'eq':
                return eq
            if pred == 'ne':
                return not eq
            raise Inconclusive('ordered pointer comparison')
        table = {'eq': lambda a, b: a == b, 'ne': lambda a, b: a != b, 'slt': lambda a, b: a < b, 'sle': lambda a, b: a <= b,
                 'sgt': lambda a, b: a > b, 'sge': lambda a, b: a >= b}
        if isinstance(x, bool):
            x = int(x)
        if isinstance(y, bool):
            y = int(y)
        if pred not in table:
            raise Inconclusive('unsigned comparison %s' % pred)
        return table[pred](x, y)

    # ---- memory --------------------------------------------------------------------
    def _resolve(self, addr, what):
        if isinstance(addr, P):
            addr = ('addr', addr, '', ())
        if not (isinstance(addr, tuple) and addr[0] == 'addr'):
            raise Inconclusive('%s %r' % (what, addr))
        _, base, struct, path = addr
        if base is None:
            raise Defect('%s through NULL' % what)
        if not isinstance(base, P):
            raise Inconclusive('%s through %r' % (what, base))
        return base, struct, path

    def load(self, addr):
        base, struct, path = self._resolve(addr, 'load')
        if base.kind == 'array':
            i = path[0]
            if not isinstance(i, int):
                raise Inconclusive('symbolic index into %r' % base)
            if not 0 <= i < len(base.items):
                raise Defect('read of item %d of %s, which has %d item(s)' % (i, base.label, len(base.items)))
            return base.items[i]
        key = (struct, path)
        if key not in base.fields:
            base.fields[key] = self.world.field(self, base, struct, path)
        return base.fields[key]

    def store(self, addr, v):
        base, struct, path = self._resolve(addr, 'store')
        key = (struct, path)
        if key not in base.fields:
            try:
                base.fields[key] = self.world.field(self, base, struct, path)
            except Inconclusive:
                base.fields[key] = None
        old = base.fields[key]
        base.fields[key] = v
        if base.kind == 'cell':
            return
        if isinstance(old, P):
            old.frame += 1          # the reference the field held passes to the frame (Py_CLEAR pattern)
        if isinstance(v, P):
            v.frame -= 1
        self.events.append(('store', base.label, path, v))

    # ---- calls ---------------------------------------------------------------------
    def call(self, name, args, site):
        st = self.world.stubs.get(name)
        if st is not None:
            return st(self, args, site)
        if name in self.funcs and name in self.inline:
            return self.call_internal(name, args)
        raise Inconclusive('no contract stub for %s' % name)


# ---------------------------------------------------------------------------------
# stubs shared by the worlds
# ---------------------------------------------------------------------------------

def s_incref(ex, a, site):
    if a[0] is None:
        raise Defect('INCREF(NULL) at %s' % site)
    a[0].frame += 1


def s_decref(ex, a, site):
    if a[0] is None:
        raise Defect('DECREF(NULL) at %s' % site)
    a[0].frame -= 1


def s_xincref(ex, a, site):
    if a[0] is not None:
        a[0].frame += 1


def s_xdecref(ex, a, site):
    if a[0] is not None:
        a[0].frame -= 1


def s_err_occurred(ex, a, site):
    return ex.err


def s_err_matches(ex, a, site):
    if ex.err is None:
        raise Defect('PyErr_ExceptionMatches with no exception set at %s' % site)
    return 1 if ex.err is a[0] else 0


def s_err_clear(ex, a, site):
    ex.err = None


def s_err_setstring(ex, a, site):
    ex.err = a[0]


COMMON_STUBS = {
    'VP_INCREF': s_incref, 'VP_DECREF': s_decref, 'VP_XINCREF': s_xincref, 'VP_XDECREF': s_xdecref,
    'PyErr_Occurred': s_err_occurred, 'PyErr_ExceptionMatches': s_err_matches, 'PyErr_Clear': s_err_clear,
    'PyErr_SetString': s_err_setstring, 'PyErr_SetObject': s_err_setstring,
}
COMMON_STUB_DOC = {
    'VP_INCREF/VP_DECREF/VP_XINCREF/VP_XDECREF': 'Py_INCREF / Py_DECREF / Py_X* (macros turned into calls by the shim): frame reference balance +-1',
    'PyErr_Occurred / PyErr_ExceptionMatches / PyErr_Clear / PyErr_SetString / PyErr_SetObject': 'one pending-exception slot holding the exception class object',
}
