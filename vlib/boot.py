"""Select which build of zope.interface a process uses.

impl 'py' : PURE_PYTHON=1, modules imported from /repo/src (working tree).
impl 'c'  : PURE_PYTHON=0, modules imported from a scratch copy of /repo/src
            in which the *current* _zope_interface_coptimizations.c was
            compiled (VP_ZOPE_SCRATCH), so a stale in-place .so is never used.
Must be called before zope.interface is imported.
"""
import os
import sys

REPO = os.environ.get('VP_REPO', '/repo')


def select(impl):
    assert 'zope.interface' not in sys.modules, 'boot.select() called too late'
    if impl == 'py':
        os.environ['PURE_PYTHON'] = '1'
        src = os.path.join(REPO, 'src')
    elif impl == 'c':
        os.environ['PURE_PYTHON'] = '0'
        src = os.environ['VP_ZOPE_SCRATCH']
    else:
        raise ValueError(impl)
    import zope
    p = os.path.join(src, 'zope')
    path = list(zope.__path__)
    if p in path:
        path.remove(p)
    path.insert(0, p)
    zope.__path__[:] = path
    import zope.interface
    assert zope.interface.__file__.startswith(src), zope.interface.__file__
    from zope.interface import interface as _i
    is_c = _i.InterfaceBase is not _i.InterfaceBasePy
    assert is_c == (impl == 'c'), (impl, is_c)
    return impl
