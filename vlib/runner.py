"""bin/check back end: run every harness of a property, replay counterexamples,
apply known findings, write evidence."""
import argparse
import json
import os
import subprocess
import sys
import time
from concurrent.futures import ThreadPoolExecutor

ROOT = os.path.dirname(os.path.dirname(os.path.abspath(__file__)))
PY = os.path.join(ROOT, '.venv', 'bin', 'python')
NCPU = int(os.environ.get('VP_NCPU', os.cpu_count() or 4))
EXIT_OK, EXIT_VIOLATION, EXIT_HARNESS_ERROR = 0, 1, 3


def load_known(prop):
    path = os.path.join(ROOT, 'known_findings.json')
    if not os.path.exists(path):
        return []
    with open(path) as f:
        data = json.load(f)
    return [e for e in data.get('findings', []) if e.get('property') == prop]


def run_worker(prop, hname, impl, part, nparts, params, budget, ppt, seed, known, env,
               replay=None):
    cmd = [PY, '-m', 'vlib.worker', '--prop', prop, '--harness', hname, '--impl', impl,
           '--part', str(part), '--nparts', str(nparts), '--params', json.dumps(params),
           '--budget', str(budget), '--ppt', str(ppt), '--seed', str(seed),
           '--known', json.dumps(sorted(known))]
    if replay is not None:
        cmd += ['--replay', json.dumps(replay)]
    t0 = time.time()
    wall_limit = 120 if replay is not None else budget * 3 + 120
    try:
        r = subprocess.run(cmd, cwd=ROOT, env=env, capture_output=True, text=True,
                           timeout=wall_limit)
    except subprocess.TimeoutExpired:
        return dict(fatal='worker wall timeout', part=part, impl=impl, paths=0)
    if replay is not None:
        try:
            return json.loads(r.stdout.strip().splitlines()[-1])
        except Exception:
            return dict(reproduced=False, msg='replay crashed: rc=%s %s' % (
                r.returncode, (r.stderr or r.stdout)[-1500:]), crashed=True,
                rc=r.returncode)
    for line in reversed(r.stdout.splitlines()):
        if line.startswith('VPJSON '):
            st = json.loads(line[7:])
            st['worker_wall_s'] = round(time.time() - t0, 2)
            return st
    return dict(fatal='worker died rc=%s: %s' % (r.returncode, (r.stderr or r.stdout)[-2500:]),
                part=part, impl=impl, paths=0)


def main(argv=None):
    ap = argparse.ArgumentParser()
    ap.add_argument('prop')
    ap.add_argument('--tier', default=os.environ.get('VERIF_TIER', 'quick'))
    ap.add_argument('--only', default=None, help='comma list of harness names')
    ap.add_argument('--replay', default=None)
    ap.add_argument('--budget-scale', type=float, default=float(os.environ.get('VP_BUDGET_SCALE', '1')))
    a = ap.parse_args(argv)
    tier = a.tier if a.tier in ('quick', 'thorough') else 'quick'
    seed = int(os.environ.get('VERIF_SEED', '0') or 0)
    prop = a.prop
    sys.path.insert(0, ROOT)
    os.chdir(ROOT)

    env = dict(os.environ)
    env['PYTHONPATH'] = ROOT
    env['PYTHONHASHSEED'] = '0'
    env.setdefault('VP_REPO', '/repo')

    if a.replay:
        with open(a.replay) as f:
            rp = json.load(f)
        scratch = None
        try:
            if rp.get('impl') == 'c':
                from vlib import cbuild
                scratch = cbuild.build()
                env['VP_ZOPE_SCRATCH'] = scratch
            res = run_worker(rp['property'], rp['harness'], rp.get('impl', 'py'), 0, 1,
                             rp.get('params', {}), 0, 0, 0, [], env, replay=rp['args'])
        finally:
            if scratch:
                from vlib import cbuild
                cbuild.cleanup(scratch)
        print(json.dumps(res, indent=1))
        if res.get('reproduced'):
            print('VIOLATION property=%s replay=%s' % (rp['property'], a.replay))
            return EXIT_VIOLATION
        return EXIT_OK

    t_start = time.time()
    # harness metadata is loaded in-process (py build) only to read descriptors
    from vlib import boot
    boot.select('py')
    from vlib import harness as hmod
    hs, mod = hmod.load(prop)
    names = [n for n in hs if (a.only is None or n in a.only.split(','))]
    if not names:
        print('HARNESS-ERROR: no harness selected')
        return EXIT_HARNESS_ERROR
    known = load_known(prop)
    open_known = [e for e in known if e.get('status') == 'open']
    open_sigs = sorted({e['signature'] for e in open_known})

    need_c = any(getattr(hs[n], 'needs_c', False) for n in names) or any('c' in (hs[n].tiers.get(tier) or hs[n].tiers.get('quick') or {}).get('impls', hs[n].impls) for n in names) or any(
        e.get('witness', {}).get('impl') == 'c' for e in open_known)
    scratch = None
    results = {}
    custom = {}
    try:
        if need_c:
            from vlib import cbuild
            scratch = cbuild.build()
            env['VP_ZOPE_SCRATCH'] = scratch
        tasks = []
        for n in names:
            h = hs[n]
            t = h.tiers.get(tier) or h.tiers.get('quick')
            if h.kind == 'custom':
                continue
            for impl in t.get('impls', h.impls):
                nparts = t.get('parts', NCPU)
                for part in range(nparts):
                    tasks.append((n, impl, part, nparts, t))
        with ThreadPoolExecutor(max_workers=NCPU) as ex:
            futs = []
            for (n, impl, part, nparts, t) in tasks:
                futs.append((n, impl, ex.submit(
                    run_worker, prop, n, impl, part, nparts, t.get('params', {}),
                    t.get('budget_s', 30) * a.budget_scale, t.get('ppt', 20.0), seed,
                    open_sigs, env)))
            # custom engines run in the main thread meanwhile
            for n in names:
                h = hs[n]
                if h.kind == 'custom':
                    ctx = dict(tier=tier, seed=seed, env=env, scratch=scratch, root=ROOT,
                               known=open_sigs, py=PY, ncpu=NCPU,
                               evdir=os.environ.get('VP_EVIDENCE_DIR') or os.path.join(ROOT, 'evidence'))
                    custom[n] = h.run(tier, ctx)
            for n, impl, f in futs:
                results.setdefault((n, impl), []).append(f.result())

        # ---- triage ---------------------------------------------------------
        out_lines = []
        harness_errors = []
        violations = []
        replays_attempted = replays_reproduced = 0
        per_h = []
        EVDIR = os.environ.get('VP_EVIDENCE_DIR') or os.path.join(ROOT, 'evidence')   # redirected only by tools/seed_matrix.sh
        os.makedirs(os.path.join(EVDIR, 'replays'), exist_ok=True)
        for (n, impl), sts in sorted(results.items()):
            h = hs[n]
            t = h.tiers.get(tier) or h.tiers.get('quick')
            agg = dict(harness=n, impl=impl, kind=h.kind, paths=0, confirmed=0, ignored=0,
                       unknown=0, reached=0, distinct=0, solver_queries=0, solver_s=0.0,
                       solver_unknown=0, cpu_s=0.0, workers=len(sts), workers_exhausted=0,
                       errors=[], samples=[], params=t.get('params', {}), known_hits={})
            for st in sts:
                if st.get('fatal'):
                    harness_errors.append('%s[%s] part %s: %s' % (n, impl, st.get('part'), st['fatal']))
                    continue
                for k in ('paths', 'confirmed', 'ignored', 'unknown', 'reached', 'distinct',
                          'solver_queries', 'solver_unknown'):
                    agg[k] += st.get(k, 0)
                agg['solver_s'] += st.get('solver_s', 0.0)
                agg['cpu_s'] += st.get('cpu_s', 0.0)
                agg['workers_exhausted'] += 1 if st.get('exhausted') else 0
                agg['errors'] += st.get('errors', [])[:2]
                if len(agg['samples']) < 4:
                    agg['samples'] += st.get('samples', [])[:2]
                for sig, k in st.get('known', {}).items():
                    kk = agg['known_hits'].setdefault(sig, dict(count=0, args=k['args'], msg=k['msg']))
                    kk['count'] += k['count']
                for v in st.get('violations', []):
                    replays_attempted += 1
                    # replayed with the open known signatures, so that a Collector-using harness reports
                    # the same first non-listed deviation as under the engine (not an earlier listed one)
                    res = run_worker(prop, n, impl, 0, 1, t.get('params', {}), 0, 0, 0, open_sigs, env,
                                     replay=v['args'])
                    if res.get('reproduced') and getattr(h, 'stub_kernel', False) and \
                            res.get('exc_type') in ('TypeError', 'AttributeError', 'ImportError', 'NameError'):
                        # a kernel harness drives *private* functions with stub containers: a TypeError / AttributeError out of
                        # that contact means the private interface no longer fits the stubs (renamed parameter, another
                        # attribute read from a specification).  That is not evidence about the property: the kernel is
                        # reported as inapplicable to this tree and the property is decided by its tiers on real objects.
                        agg['inapplicable'] = 'kernel does not fit this tree: %s' % (res.get('msg') or '')[:300]
                        continue
                    if res.get('reproduced'):
                        replays_reproduced += 1
                        sig = res.get('signature')
                        if sig in open_sigs:
                            kk = agg['known_hits'].setdefault(sig, dict(count=0, args=v['args'], msg=res.get('msg')))
                            kk['count'] += 1
                            continue
                        idx = len(violations)
                        rpath = os.path.join(EVDIR, 'replays',
                                             '%s-%s-%s-%d.json' % (prop, n, impl, idx))
                        with open(rpath, 'w') as f:
                            json.dump(dict(property=prop, harness=n, impl=impl,
                                           params=t.get('params', {}), args=v['args'],
                                           msg=res.get('msg'), signature=sig,
                                           how='bin/check %s --replay %s' % (prop, rpath)), f, indent=1)
                        violations.append(dict(harness=n, impl=impl, msg=res.get('msg'),
                                               signature=sig, replay=rpath))
                    else:
                        harness_errors.append('%s[%s]: counterexample did not reproduce: %s / replay: %s' % (
                            n, impl, v.get('msg', '')[:300], res.get('msg', '')[:300]))
            agg['exhaustive'] = (agg['workers_exhausted'] == len(sts) and agg['unknown'] == 0
                                 and not any(s.get('fatal') for s in sts))
            agg['solver_s'] = round(agg['solver_s'], 2)
            agg['cpu_s'] = round(agg['cpu_s'], 2)
            for st in sts:
                if st.get('inapplicable'):
                    agg['inapplicable'] = st['inapplicable']
            if agg.get('inapplicable'):
                agg['exhaustive'] = False
                out_lines.append('NOTE: %s[%s] not applicable to this tree (%s); the property is decided by its other harnesses' % (
                    n, impl, agg['inapplicable'][:200]))
            elif agg['reached'] == 0 and not violations and not agg['known_hits']:
                harness_errors.append('%s[%s]: vacuous - oracle never reached' % (n, impl))
            per_h.append(agg)
        for n, res in custom.items():
            per_h.append(res['agg'])
            harness_errors += res.get('harness_errors', [])
            for v in res.get('violations', []):
                if v.get('signature') in open_sigs:
                    res['agg'].setdefault('known_hits', {}).setdefault(
                        v['signature'], dict(count=0, msg=v.get('msg')))['count'] += 1
                else:
                    violations.append(v)
            replays_attempted += res.get('replays_attempted', 0)
            replays_reproduced += res.get('replays_reproduced', 0)

        # ---- known findings: replay witnesses --------------------------------
        known_report = []
        for e in open_known:
            w = e.get('witness') or {}
            ok = None
            if w.get('harness') in hs and hs[w['harness']].kind != 'custom':
                res = run_worker(prop, w['harness'], w.get('impl', 'py'), 0, 1, w.get('params', {}),
                                 0, 0, 0, [], env, replay=w['args'])
                ok = bool(res.get('reproduced')) and res.get('signature') == e['signature']
            elif w.get('harness') in hs:
                ok = hs[w['harness']].replay_known(e, dict(env=env, scratch=scratch, root=ROOT, py=PY))
            hits = sum(a_.get('known_hits', {}).get(e['signature'], {}).get('count', 0) for a_ in per_h)
            known_report.append(dict(signature=e['signature'], witness_reproduces=ok, paths_excluded=hits))
            if ok:
                out_lines.append('KNOWN-FINDING: property=%s %s [%s]' % (prop, e['description'], e['signature']))
            else:
                out_lines.append('NOTE: known finding %s did not reproduce on this tree (witness replay: %s)'
                                 % (e['signature'], ok))
    finally:
        if scratch:
            from vlib import cbuild
            cbuild.cleanup(scratch)

    # ---- evidence -------------------------------------------------------------
    from vlib import evidence
    ev = evidence.build(prop, tier, seed, hs, names, per_h, violations, harness_errors,
                        known_report, replays_attempted, replays_reproduced,
                        time.time() - t_start, mod)
    evidence.write(prop, ev)
    for l in out_lines:
        print(l)
    for a_ in per_h:
        print('  %-28s %-3s %-6s paths=%-7d reached=%-7d distinct=%-7d exhaustive=%-5s unknown=%d solver=%.1fs/%dq cpu=%.0fs' % (
            a_['harness'], a_.get('impl', '-'), a_.get('kind', ''), a_.get('paths', 0), a_.get('reached', 0),
            a_.get('distinct', 0), a_.get('exhaustive'), a_.get('unknown', 0), a_.get('solver_s', 0),
            a_.get('solver_queries', 0), a_.get('cpu_s', 0)))
    if violations:
        seen = set()
        for v in violations:
            k = (v['harness'], v.get('signature'))
            if k in seen or len(seen) >= 8:
                continue
            seen.add(k)
            print('  violation: %s[%s] %s' % (v['harness'], v.get('impl'), (v.get('msg') or '')[:600]))
            print('VIOLATION property=%s replay=%s' % (prop, v['replay']))
        print('  (%d counterexamples replayed and reproduced in total; all listed in the evidence file)' % len(violations))
        return EXIT_VIOLATION
    if harness_errors:
        for e in harness_errors:
            print('HARNESS-ERROR: ' + e[:1500])
        return EXIT_HARNESS_ERROR
    print('OK property=%s tier=%s wall=%.1fs' % (prop, tier, time.time() - t_start))
    return EXIT_OK


if __name__ == '__main__':
    sys.exit(main())
