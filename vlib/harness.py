"""Harness descriptor shared by property modules, the worker and the runner."""
import hashlib
import importlib
import inspect


class Harness:
    """One symbolic-execution obligation.

    make(params, part, nparts) -> function with annotated parameters (the harness).
    kind:  'S' symbolic data kernel, 'E' solver-enumerated structure,
           'custom' for engines B / C which provide run(tier, ctx) instead.
    tiers: {'quick': dict(budget_s, parts, params, per_path_timeout), 'thorough': ...}
    """

    def __init__(self, name, make=None, kind='E', impls=('py',), tiers=None,
                 encoded=(), bounds='', outside='', assumptions=(), run=None,
                 stubs=(), oracle='', stub_kernel=False):
        self.name = name
        self.make = make
        self.kind = kind
        self.impls = tuple(impls)
        self.tiers = tiers or {}
        self.encoded = tuple(encoded)
        self.bounds = bounds
        self.outside = outside
        self.assumptions = tuple(assumptions)
        self.stubs = tuple(stubs)
        self.oracle = oracle
        self.run = run
        # kernel harness driving private functions with stub containers: a TypeError / AttributeError at that contact is a
        # mismatch between stubs and tree, not a finding (vlib.runner)
        self.stub_kernel = stub_kernel


def load(prop):
    mod = importlib.import_module('props.' + prop)
    return {h.name: h for h in mod.HARNESSES}, mod


def source_digest(qualname):
    """sha1 of the source text of 'module:attr.path' as read from the current tree."""
    modname, _, attr = qualname.partition(':')
    try:
        obj = importlib.import_module(modname)
        for part in attr.split('.'):
            if part:
                obj = getattr(obj, part)
        obj = getattr(obj, '__func__', obj)
        if isinstance(obj, property):
            obj = obj.fget
        src = inspect.getsource(obj)
        return hashlib.sha1(src.encode()).hexdigest()[:12]
    except Exception as e:  # builtins (C twins) have no Python source
        return 'n/a(%s)' % type(e).__name__
