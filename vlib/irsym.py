"""Engine C (irsym): symbolic execution of the LLVM IR of the C accelerator's lookup layer.

Front end: clang-14 -O0 + opt -mem2reg on a 12-line shim that #includes the *current*
/repo/src/zope/interface/_zope_interface_coptimizations.c with the reference-count macros turned into calls.
The executor walks the IR of the chosen entry function, inlining the module's own helpers, with

  * abstract objects (concrete identities) whose **reference counts are z3 integer terms**:
    rc(o) = ext(o) + modelled references, ext(o) >= lower bound an *unknown* number of holders we do not see;
    "can this object already be released here?" is a solver query (rc == 0 satisfiable under the path condition);
  * contract stubs for the C-API functions the IR calls (new / borrowed / stolen references, may fail, may run Python);
  * **havoc at every call that may run Python**: the foreign code may call self.changed(), modelled by executing the
    real LB_clear IR on the current heap (a thread switch under the GIL can only happen at the same points);
  * decision points (API failure, key present / absent, havoc or not, released or still held) explored exhaustively
    by depth-first search over decision scripts.

Monitors: (M1) no use of an object that may have been released; (M2) reference balance of the frame at every return;
(M3) no value obtained from _uncached_* before a havoc-changed() is stored into a dictionary still reachable from
self afterwards; (M4) functional contract of the VerifyingBase generation snapshot (verify_changed stores
tuple(registry.ro)[1:] and one generation per registry; _verify calls changed() iff the generations differ).  Loops do not occur in the analysed functions (checked: a back edge aborts the run as inconclusive).
"""
import os
import re
import subprocess
import sysconfig
import tempfile
import time

import z3

REPO = os.environ.get('VP_REPO', '/repo')
MUTABLE_FUNCTION_STATICS = set()
LOOP_BOUND = 2          # loops only run over tuples whose length is a decision in {0, 1, 2}: the bound is never hit

SHIM = r'''
#include "Python.h"
#include "structmember.h"
extern void VP_INCREF(void*); extern void VP_DECREF(void*); extern void VP_XINCREF(void*); extern void VP_XDECREF(void*);
#undef Py_INCREF
#undef Py_DECREF
#undef Py_XINCREF
#undef Py_XDECREF
#undef Py_CLEAR
#define Py_INCREF(op) VP_INCREF((void*)(op))
#define Py_DECREF(op) VP_DECREF((void*)(op))
#define Py_XINCREF(op) VP_XINCREF((void*)(op))
#define Py_XDECREF(op) VP_XDECREF((void*)(op))
#define Py_CLEAR(op) do { PyObject *_py_tmp = (PyObject*)(op); if (_py_tmp != NULL) { (op) = NULL; VP_DECREF(_py_tmp); } } while (0)
#include "%s"
'''


def build_ir(workdir=None):
    workdir = workdir or tempfile.mkdtemp(prefix='vp-ir-')
    src = os.path.join(REPO, 'src', 'zope', 'interface', '_zope_interface_coptimizations.c')
    shim = os.path.join(workdir, 'shim.c')
    with open(shim, 'w') as f:
        f.write(SHIM % src)
    inc = sysconfig.get_paths()['include']
    ll = os.path.join(workdir, 'zic.ll')
    m2r = os.path.join(workdir, 'zic.m2r.ll')
    r = subprocess.run(['clang-14', '-S', '-emit-llvm', '-O0', '-Xclang', '-disable-O0-optnone', '-DNDEBUG', '-w', '-I', inc, shim, '-o', ll],
                       capture_output=True, text=True)
    if r.returncode != 0:
        raise RuntimeError('clang failed: ' + r.stderr[-2000:])
    r = subprocess.run(['opt-14', '-S', '-mem2reg', ll, '-o', m2r], capture_output=True, text=True)
    if r.returncode != 0:
        raise RuntimeError('opt failed: ' + r.stderr[-2000:])
    with open(m2r) as f:
        return f.read(), workdir


# ---------------------------------------------------------------------------
# parser (the subset of textual IR that occurs)
# ---------------------------------------------------------------------------

class Instr:
    __slots__ = ('dst', 'op', 'text', 'args')

    def __init__(self, dst, op, text):
        self.dst, self.op, self.text = dst, op, text


class Func:
    def __init__(self, name, params):
        self.name, self.params = name, params
        self.blocks = {}
        self.order = []


def _split_top(s):
    out, depth, cur = [], 0, ''
    for ch in s:
        if ch in '([{<':
            depth += 1
        elif ch in ')]}>':
            depth -= 1
        if ch == ',' and depth == 0:
            out.append(cur.strip())
            cur = ''
        else:
            cur += ch
    if cur.strip():
        out.append(cur.strip())
    return out


def parse(text):
    funcs = {}
    cur = None
    block = None
    for line in text.splitlines():
        if line.startswith('define '):
            m = re.search(r'@([\w.]+)\((.*)\)[^()]*\{\s*$', line)
            params = []
            for a in _split_top(m.group(2)):
                toks = a.split()
                if toks and toks[-1].startswith('%'):
                    params.append(toks[-1])
            cur = Func(m.group(1), params)
            funcs[cur.name] = cur
            block = '%entry'
            cur.blocks[block] = []
            cur.order.append(block)
            # the implicit entry block's label is the next unnamed value number = number of params
            cur.entry_label = '%' + str(len(params))
            continue
        if cur is None:
            continue
        if line.startswith('}'):
            cur = None
            continue
        m = re.match(r'^([\w.]+):', line)
        if m:
            block = '%' + m.group(1)
            cur.blocks[block] = []
            cur.order.append(block)
            continue
        s = line.strip()
        if not s or s.startswith(';'):
            continue
        s = s.split(' !')[0] if ', !' not in s else s.split(', !')[0]
        m = re.match(r'^(%[\w.]+) = (\w+) (.*)$', s)
        if m:
            ins = Instr(m.group(1), m.group(2), m.group(3))
        else:
            m = re.match(r'^(\w+)\s*(.*)$', s)
            if not m:
                ins = Instr(None, 'raw', s)      # e.g. the case lines of a switch
            else:
                ins = Instr(None, m.group(1), m.group(2))
        cur.blocks[block].append(ins)
    return funcs


# ---------------------------------------------------------------------------
# abstract heap
# ---------------------------------------------------------------------------

class Obj:
    def __init__(self, oid, kind, rc, label, immortal=False):
        self.oid, self.kind, self.direct, self.label = oid, kind, rc, label
        self.immortal = immortal
        self.lb = 0                    # lower bound of `direct` known without the solver
        self.holders = []              # containers (dict / tuple objects) that hold one reference each while they are alive
        self.fields = {}               # (struct, path) -> value
        self.items = None              # dict objects: list of [key, value]
        self.epoch = None              # for values answered by _uncached_*: epoch at which they were computed
        self.frame = 0                 # references owned by the analysed frame (M2)

    def __repr__(self):
        return '<%s#%d>' % (self.label, self.oid)


class Violation(Exception):
    def __init__(self, kind, msg):
        Exception.__init__(self, msg)
        self.kind = kind


class Inconclusive(Exception):
    pass


class _EmptyShard(Exception):
    pass


class _Replay(Exception):
    """Raised when a path needs a decision that the script does not contain yet."""

    def __init__(self, options):
        self.options = options


MAY_RUN_PYTHON = {
    'PySequence_Tuple': 'iteration of a lazy `required` sequence',
    'PyObject_CallMethodObjArgs': 'call of self._uncached_* / a method',
    'PyObject_CallFunctionObjArgs': 'call of a factory',
    'PyObject_GetAttr': 'attribute access (descriptor)',
    'providedBy': '__providedBy__ descriptor',
    'PyObject_IsTrue': '__bool__/__len__ of a str subclass',
    'PyDict_GetItem': '__hash__/__eq__ of a key',
    'PyDict_SetItem': '__hash__/__eq__ of a key',
    'PyObject_IsInstance': '__instancecheck__',
    'PyObject_RichCompareBool': '__eq__ of an operand',
    'PyObject_GetItem': '__getitem__',
}
EXOTIC = {'PyObject_IsTrue', 'PyDict_GetItem', 'PyDict_SetItem', 'PyObject_IsInstance', 'PyObject_RichCompareBool'}


class Exec:
    def __init__(self, funcs, entry, nargs_obj, self_struct='LB', opts=None):
        self.funcs, self.entry = funcs, entry
        self.opts = opts or {}
        self.nargs_obj = nargs_obj
        self.self_struct = self_struct
        self.stats = dict(paths=0, queries=0, solver_s=0.0, violations=[], inconclusive=[], max_depth=0, havocs=0)

    # ---- decisions -----------------------------------------------------------
    def decide(self, what, options):
        if self.foreign and 'str_registry' not in what:
            # inside the re-entered changed(): its only effects on the caller's heap are "caches and snapshot released,
            # new snapshot stored" or "released, then failed" (both fields are assigned at the very end), selected by
            # the outcome of its first attribute access; every other internal outcome takes its first option
            return options[0]
        if self.pos < len(self.script):
            c = self.script[self.pos]
            if c >= len(options):
                raise _EmptyShard()
            if self.pos < len(self.widths):
                self.widths[self.pos] = len(options)
        else:
            self.script.append(0)
            self.widths.append(len(options))
            self.labels.append(what)
            c = 0
        self.pos += 1
        self.trace.append('%s -> %s' % (what, options[c]))
        return options[c]

    def check(self, *conds):
        t0 = time.perf_counter()
        self.solver.push()
        for c in conds:
            self.solver.add(c)
        r = self.solver.check()
        self.solver.pop()
        self.stats['queries'] += 1
        self.stats['solver_s'] += time.perf_counter() - t0
        if r == z3.unknown:
            raise Inconclusive('solver unknown')
        return r == z3.sat

    # ---- objects -------------------------------------------------------------
    def new_obj(self, kind, label, rc_known, ext_min=0, immortal=False, fresh=False):
        oid = len(self.objs) + 1
        if fresh:
            rc = z3.IntVal(rc_known)
        else:
            ext = z3.Int('ext_%s_%d' % (label.replace(' ', '_').replace('.', '_'), oid))
            self.solver.add(ext >= ext_min)
            rc = ext + rc_known
        o = Obj(oid, kind, rc, label, immortal)
        o.lb = rc_known + (0 if fresh else ext_min)
        if kind == 'dict':
            o.items = []
        self.objs[oid] = o
        return o

    def rc(self, o, memo=None):
        """Reference count as a z3 term: explicit references + one per live container holding the object."""
        memo = {} if memo is None else memo
        if o.oid in memo:
            return memo[o.oid]
        t = o.direct
        for c in o.holders:
            t = t + z3.If(self.rc(c, memo) > 0, 1, 0)
        memo[o.oid] = t
        return t

    def use(self, o, how):
        """M1: the object is passed to the API / dereferenced: it must not be possible that it was already released."""
        if o is None or o.immortal or o.lb >= 1:
            return
        t = z3.simplify(self.rc(o))
        if z3.is_int_value(t):
            dead = t.as_long() <= 0
        else:
            dead = self.check(t <= 0)
        if dead:
            raise Violation('use-after-release', '%s of %r although every reference to it may have been dropped (reference count %s can be 0)' % (how, o, t))

    def incref(self, o, frame=True):
        if o is None:
            raise Violation('null-deref', 'INCREF(NULL)')
        self.use(o, 'INCREF')
        if not o.immortal:
            o.direct = o.direct + 1
            o.lb += 1
        if frame and not self.foreign:
            o.frame += 1

    def decref(self, o, frame=True, why='DECREF'):
        if o is None:
            raise Violation('null-deref', 'DECREF(NULL)')
        self.use(o, why)
        if frame and not self.foreign:
            o.frame -= 1
        if not o.immortal:
            o.lb -= 1
            o.direct = o.direct - 1      # whether that released it (and, for a container, its contents) is left to the solver

    # ---- reachability from self (M3) -------------------------------------------
    def reachable_dicts(self):
        seen, out = set(), []
        stack = [v for v in self.selfobj.fields.values() if isinstance(v, Obj)]
        while stack:
            o = stack.pop()
            if o.oid in seen:
                continue
            seen.add(o.oid)
            out.append(o)
            if o.items:
                for k, v, _m in o.items:
                    if isinstance(v, Obj) and v.kind == 'dict':
                        stack.append(v)
        return seen

    # ---- havoc -----------------------------------------------------------------
    def havoc(self, api, callsite):
        """Foreign Python code runs here; it may call self.changed() (the real LB_clear is executed)."""
        if self.foreign:
            return          # no havoc inside the havoc
        if api in EXOTIC and not self.opts.get('exotic', True):
            return
        if self.havocs >= self.opts.get('max_havocs', 2):
            return
        c = self.decide('Python code runs in %s (%s) at %s' % (api, MAY_RUN_PYTHON[api], callsite), ['does not touch the registry', 'calls self.changed()'])
        if c.startswith('calls'):
            self.havocs += 1
            self.stats['havocs'] += 1
            self.epoch += 1
            fn = 'LB_clear' if self.self_struct == 'LB' else 'verify_changed'
            self.trace.append('  >> %s(self) executed' % fn)
            depth = self.depth
            self.foreign += 1
            try:
                self.call_internal(fn, [self.selfobj] if fn == 'LB_clear' else [self.selfobj, None])
            finally:
                self.foreign -= 1
            self.depth = depth

    # ---- running -----------------------------------------------------------------
    def run_all(self, budget_s=60.0, max_paths=2000000, prefix=()):
        """Depth-first search over decision scripts.  With `prefix` only the sub-tree below that prefix is explored
        (sharding across processes: every decision is binary, so the 2^D prefixes of length D partition the tree; a path
        that ends before D decisions is visited by several shards, which only costs time)."""
        t0 = time.time()
        floor = len(prefix)
        self.script, self.widths, self.labels = list(prefix), [2] * floor, ['shard'] * floor
        while True:
            if time.time() - t0 > budget_s or self.stats['paths'] >= max_paths:
                self.stats['exhausted'] = False
                return self.stats
            self.run_one()
            self.stats['paths'] += 1
            self.stats['max_depth'] = max(self.stats['max_depth'], len(self.script))
            # next script: increment the last decision (above the shard prefix) that still has an alternative
            while len(self.script) > floor and self.script[-1] + 1 >= self.widths[-1]:
                self.script.pop()
                self.widths.pop()
                self.labels.pop()
            if len(self.script) <= floor:
                self.stats['exhausted'] = True
                return self.stats
            self.script[-1] += 1

    def run_one(self):
        self.pos = 0
        self.trace = []
        self.objs = {}
        self.solver = z3.Solver()
        self.havocs = 0
        self.foreign = 0
        self.epoch = 0
        self.depth = 0
        self.cmp_log, self.call_log = [], []
        f = self.funcs[self.entry]
        # the object whose method runs: held by the caller for the duration
        self.selfobj = self.new_obj('self', 'self', 1, ext_min=1)
        self.selfobj.struct = self.self_struct
        args = [self.selfobj]
        names = self.opts.get('arg_names') or ['arg%d' % i for i in range(1, len(f.params))]
        nullable = self.opts.get('nullable', ())
        for i, p in enumerate(f.params[1:]):
            nm = names[i] if i < len(names) else 'arg%d' % (i + 1)
            if nm in nullable:
                c = self.decide('argument %s' % nm, ['given', 'NULL'])
                if c == 'NULL':
                    args.append(None)
                    continue
            args.append(self.new_obj('object', nm, 1, ext_min=0))     # the caller's reference is the known one
        self.args = args
        try:
            ret = self.call_internal(self.entry, args, top=True)
            self.at_return(ret)
        except Violation as v:
            rec = dict(kind=v.kind, msg=str(v), function=self.entry, trace=list(self.trace)[-40:], script=list(self.script))
            if not any(x['kind'] == rec['kind'] and x['msg'] == rec['msg'] for x in self.stats['violations']):
                self.stats['violations'].append(rec)
        except Inconclusive as e:
            if len(self.stats['inconclusive']) < 20:
                self.stats['inconclusive'].append(dict(reason=str(e), trace=list(self.trace)[-10:]))
            self.stats['n_inconclusive'] = self.stats.get('n_inconclusive', 0) + 1
        except _EmptyShard:
            pass

    def at_return(self, ret):
        # M2: reference balance of the frame: everything it took it gave back, except the returned object (+1)
        for o in self.objs.values():
            want = 1 if (ret is o) else 0
            if o.frame != want and not o.immortal:
                raise Violation('reference-balance', '%r: the frame returns owning %d reference(s) to it, expected %d (%s)' % (
                    o, o.frame, want, 'leak' if o.frame > want else 'over-release / borrowed reference returned'))
            if o.immortal and o.frame != want:
                raise Violation('reference-balance', 'immortal %r: frame balance %d, expected %d' % (o, o.frame, want))
        if isinstance(ret, Obj):
            self.use(ret, 'return')
        # M4: functional contract of the generation snapshot (the Python reference: _verify_ro = registry.ro[1:],
        # _verify_generations = one entry per registry of _verify_ro)
        if self.entry == 'verify_changed' and isinstance(ret, Obj):
            ro = self.selfobj.fields.get(('%struct.VB', (1,)))
            gens = self.selfobj.fields.get(('%struct.VB', (2,)))
            so = getattr(ro, 'slice_of', None)
            if so is None:
                raise Violation('snapshot', 'verify_changed returns normally with _verify_ro = %r, which is not a slice of tuple(registry.ro)' % (ro,))
            src, low, high, n = so
            # the reference slice is read from the AST of the current Python VerifyingBase.changed (VP_IRSYM_SLICE = "lower:upper")
            ref = os.environ.get('VP_IRSYM_SLICE', '1:')
            rl, ru = ref.split(':')
            rl = int(rl or 0)
            if ru == '':
                want_high_ok = (n is not None and high == n) or (isinstance(high, int) and high >= (1 << 62))
            elif int(ru) >= 0:
                want_high_ok = (high == int(ru))
            else:
                want_high_ok = (n is not None and high == n + int(ru))
            if low != rl or not want_high_ok:
                raise Violation('snapshot', 'verify_changed stores tuple(registry.ro)[%s:%s] for a resolution order of %s registries; the Python '
                                            'reference stores ro[%s]' % (low, high, n, ref))
            if not isinstance(gens, Obj) or getattr(gens, 'size', None) != ro.size:
                raise Violation('snapshot', '_verify_generations %r has %s entries for %s registries in _verify_ro' % (
                    gens, getattr(gens, 'size', None), ro.size))
            filled = sorted(k[1][1] for k in gens.fields if k[0] == '%struct.PyTupleObject')
            if filled != list(range(ro.size)):
                raise Violation('snapshot', '_verify_generations has items %r set, expected one per registry (%d)' % (filled, ro.size))
        if self.entry == '_verify':
            cmp_ = [r for (fg, r) in self.cmp_log if not fg]
            chg = [m for (fg, m) in self.call_log if not fg and 'strchanged' in m]
            if ret == 0 and cmp_ and cmp_[-1] == 1 and not chg:
                raise Violation('snapshot', '_verify returns 0 although the recorded generations differ and changed() was not called')
            if cmp_ and cmp_[-1] == 0 and chg:
                raise Violation('snapshot', '_verify calls changed() although the recorded generations are current')

    # ---- interpreter ---------------------------------------------------------------
    def call_internal(self, name, args, top=False):
        f = self.funcs[name]
        self.depth += 1
        if self.depth > 12:
            raise Inconclusive('call depth')
        env = dict(zip(f.params, args))
        block, prev = '%entry', None
        visited = {}
        while True:
            visited[block] = visited.get(block, 0) + 1
            if visited[block] > LOOP_BOUND + 2:
                raise Inconclusive('loop in %s at %s exceeds the unrolling bound %d' % (name, block, LOOP_BOUND))
            nxt = None
            for ins in f.blocks[block]:
                r = self.step(f, ins, env, prev if prev != '%entry' else f.entry_label, name)
                if r is not None:
                    if r[0] == 'br':
                        nxt = r[1]
                        break
                    if r[0] == 'ret':
                        self.depth -= 1
                        return r[1]
            if nxt is None:
                raise Inconclusive('fell off block %s in %s' % (block, name))
            prev, block = block, nxt

    def val(self, tok, env):
        tok = tok.strip()
        if tok in ('null', 'zeroinitializer'):
            return None
        if tok.startswith('%'):
            if tok not in env:
                raise Inconclusive('undefined value %s' % tok)
            return env[tok]
        if re.match(r'^-?\d+$', tok):
            return int(tok)
        if tok in ('true', 'false'):
            return tok == 'true'
        m = re.search(r'@([\w.]+)', tok)
        if m:
            return self.global_obj(m.group(1), deref='bitcast' in tok or not tok.startswith('@') or True)
        raise Inconclusive('operand %r' % tok)

    def global_obj(self, name, deref=True):
        key = '@' + name
        if key not in self.globals_:
            pass
        o = self.gl.get(key)
        if o is None:
            o = self.new_obj('global', key, 1, immortal=True)
            self.gl[key] = o
        return o

    def operand(self, argtext, env):
        """Value of a typed operand such as `%struct._object* noundef %3` or a constant expression."""
        a = argtext.strip()
        if 'getelementptr' in a and '(' in a:
            m = re.search(r'@([\w.]+)', a)
            if m and not m.group(1).startswith('.str'):
                return self.global_obj(m.group(1))        # address of (the first field of) a global object
            return ('cstr', m.group(1) if m else a)
        if a.startswith('bitcast') or ' bitcast (' in a:
            m = re.search(r'bitcast \((.*) to ', a)
            inner = m.group(1).split()[-1]
            return self.val(inner, env)
        tok = a.split()[-1]
        return self.val(tok, env)

    def step(self, f, ins, env, prev, fname):
        op, t = ins.op, ins.text
        if op == 'icmp':
            pred, rest = t.split(None, 1)
            ty, ops = rest.rsplit(' ', 2)[0], None
            a, b = [x.strip() for x in _split_top(rest)]
            x = self.val(a.split()[-1], env)
            y = self.val(b, env)
            env[ins.dst] = self.compare(pred, x, y)
            return None
        if op == 'br':
            if t.startswith('label'):
                return ('br', t.split()[1].rstrip(','))
            m = re.match(r'i1 (\S+), label (\S+), label (\S+)', t)
            c = self.val(m.group(1).rstrip(','), env)
            if isinstance(c, z3.ExprRef):
                can_t, can_f = self.check(c), self.check(z3.Not(c))
                if can_t and can_f:
                    d = self.decide('branch on %s in %s' % (c, fname), ['true', 'false'])
                    c = d == 'true'
                    self.solver.add(c if c is True else z3.Not(self._as_expr(m.group(1), env))) if False else None
                else:
                    c = can_t
            return ('br', m.group(2).rstrip(',') if c else m.group(3))
        if op == 'ret':
            if t.strip() == 'void':
                return ('ret', None)
            return ('ret', self.val(t.split()[-1], env))
        if op == 'phi':
            for m in re.finditer(r'\[\s*([^,\]]+),\s*(%[\w.]+)\s*\]', t):
                if m.group(2) == prev:
                    env[ins.dst] = self.val(m.group(1), env)
                    return None
            raise Inconclusive('phi without matching predecessor %s in %s: %s' % (prev, fname, t))
        if op in ('bitcast', 'zext', 'sext', 'trunc', 'ptrtoint', 'inttoptr'):
            src = t.split(' to ')[0]
            env[ins.dst] = self.val(src.split()[-1], env)
            return None
        if op == 'getelementptr':
            parts = _split_top(t.replace('inbounds ', ''))
            base = self.val(parts[1].split()[-1], env)
            idx = [self.val(p.split()[-1], env) for p in parts[2:]]
            struct = parts[0].strip()
            if isinstance(base, tuple) and base[0] == 'addr':
                env[ins.dst] = ('addr', base[1], base[2], base[3] + tuple(idx[1:]))
            else:
                env[ins.dst] = ('addr', base, struct, tuple(idx[1:]))
            return None
        if op == 'load':
            parts = _split_top(t)
            src = parts[1].split()[-1]
            if src in MUTABLE_FUNCTION_STATICS and not self.foreign:
                raise Violation('shared-static-state', 'the lookup keeps state in the function-static variable %s (read in %s): shared between '
                                                       'concurrent / re-entrant calls' % (src, fname))
            if src.startswith('@'):
                env[ins.dst] = self.global_obj(src[1:])
                return None
            addr = self.val(src, env)
            env[ins.dst] = self.load(addr)
            return None
        if op == 'store':
            parts = _split_top(t)
            v = self.operand(parts[0], env)
            dst = parts[1].split()[-1]
            if dst.startswith('@') and not self.foreign:
                # M5: the lookup functions must be re-entrant (other lookups run at every callback point, and in other threads): a
                # write to static / module-level storage is state shared between concurrent calls
                raise Violation('shared-static-state', 'store to the static variable %s in %s: state shared between concurrent / re-entrant '
                                                       'calls of the lookup' % (dst, fname))
            addr = self.val(dst, env)
            self.store(addr, v)
            return None
        if op == 'select':
            parts = _split_top(t)
            c = self.val(parts[0].split()[-1], env)
            env[ins.dst] = self.val(parts[1].split()[-1], env) if c else self.val(parts[2].split()[-1], env)
            return None
        if op in ('add', 'sub'):
            parts = _split_top(re.sub(r'^(nsw |nuw )+', '', t))
            a = self.val(parts[0].split()[-1], env)
            b = self.val(parts[1], env)
            env[ins.dst] = a + b if op == 'add' else a - b
            return None
        if op == 'call':
            m = re.search(r'@([\w.]+)\((.*)\)\s*(#\d+)?$', t)
            if not m:
                raise Inconclusive('indirect call: %s' % t[:80])
            name = m.group(1)
            args = [self.operand(a, env) for a in _split_top(m.group(2))]
            r = self.call(name, args, '%s:%s' % (fname, ins.dst or name))
            if ins.dst:
                env[ins.dst] = r
            return None
        if op == 'unreachable':
            raise Inconclusive('unreachable reached')
        if op == 'switch':
            raise Inconclusive('switch')
        raise Inconclusive('instruction %s %s' % (op, t[:60]))

    def compare(self, pred, x, y):
        if isinstance(x, Obj) or isinstance(y, Obj) or x is None or y is None:
            eq = (x is y)
            if pred == 'eq':
                return eq
            if pred == 'ne':
                return not eq
            raise Inconclusive('ordered pointer comparison')
        table = {'eq': lambda a, b: a == b, 'ne': lambda a, b: a != b, 'slt': lambda a, b: a < b, 'sle': lambda a, b: a <= b,
                 'sgt': lambda a, b: a > b, 'sge': lambda a, b: a >= b, 'ult': lambda a, b: a < b, 'ugt': lambda a, b: a > b,
                 'ule': lambda a, b: a <= b, 'uge': lambda a, b: a >= b}
        if isinstance(x, bool):
            x = int(x)
        if isinstance(y, bool):
            y = int(y)
        return table[pred](x, y)

    # ---- memory ------------------------------------------------------------------
    FIELD_NAMES = {('%struct.LB', (1,)): '_cache', ('%struct.LB', (2,)): '_mcache', ('%struct.LB', (3,)): '_scache',
                   ('%struct.VB', (1,)): '_verify_ro', ('%struct.VB', (2,)): '_verify_generations'}

    def load(self, addr):
        if not (isinstance(addr, tuple) and addr[0] == 'addr'):
            raise Inconclusive('load from %r' % (addr,))
        _, base, struct, path = addr
        if not isinstance(base, Obj):
            raise Violation('null-deref', 'load through NULL / non-object %r' % (base,))
        self.use(base, 'load of a field')
        key = (struct, path)
        if key not in base.fields:
            base.fields[key] = self.initial_field(base, struct, path)
        return base.fields[key]

    def store(self, addr, v):
        if not (isinstance(addr, tuple) and addr[0] == 'addr'):
            raise Inconclusive('store to %r' % (addr,))
        _, base, struct, path = addr
        if not isinstance(base, Obj):
            raise Violation('null-deref', 'store through NULL')
        self.use(base, 'store to a field')
        key = (struct, path)
        if key not in base.fields and base is self.selfobj:
            base.fields[key] = self.initial_field(base, struct, path)
        old = base.fields.get(key)
        base.fields[key] = v
        # ownership: the reference a field held passes to the frame that overwrites it (Py_CLEAR loads, stores NULL, then
        # DECREFs); a reference stored into a field is handed over by the frame
        if not self.foreign:
            if isinstance(old, Obj):
                old.frame += 1
            if isinstance(v, Obj):
                v.frame -= 1

    def initial_field(self, base, struct, path):
        nm = self.FIELD_NAMES.get((struct, path))
        if base is self.selfobj and nm:
            if nm.startswith('_verify'):
                c = self.decide('initial self->%s' % nm, ['a tuple', 'NULL'])
                if c == 'NULL':
                    return None
                return self.new_obj('tuple', 'self.%s' % nm, 1, ext_min=0)
            c = self.decide('initial self->%s' % nm, ['a dictionary', 'NULL'])
            if c == 'NULL':
                return None
            d = self.new_obj('dict', 'self.%s' % nm, 1, ext_min=0)        # held by self; other holders unknown
            return d
        if base.kind == 'tuple' and struct.endswith('PyTupleObject'):
            it = self.new_obj('object', '%s[%s]' % (base.label, path[-1]), 0, ext_min=0)   # held by the tuple
            it.holders.append(base)
            return it
        raise Inconclusive('unmodelled field %s%r of %r' % (struct, path, base))

    # ---- calls -------------------------------------------------------------------
    def call(self, name, args, site):
        if name in self.funcs and name not in STUBS and name not in ('providedBy', 'implementedBy', '_get_module'):
            return self.call_internal(name, args)
        stub = STUBS.get(name)
        if stub is None:
            raise Inconclusive('no contract stub for %s' % name)
        for a in args:
            if isinstance(a, Obj):
                self.use(a, 'argument of %s' % name)
        return stub(self, args, site)


# ---------------------------------------------------------------------------
# C-API contract stubs (the trusted base; printed into the evidence)
# ---------------------------------------------------------------------------

STUBS = {}
STUB_DOC = {}


def stub(name, doc):
    def deco(fn):
        STUBS[name] = fn
        STUB_DOC[name] = doc
        return fn
    return deco


@stub('VP_INCREF', 'reference count +1 (Py_INCREF)')
def _s_incref(ex, a, site):
    ex.incref(a[0])


@stub('VP_DECREF', 'reference count -1, object released when it reaches 0 (Py_DECREF); releasing a container drops its references')
def _s_decref(ex, a, site):
    ex.decref(a[0])


@stub('VP_XINCREF', 'Py_XINCREF')
def _s_xincref(ex, a, site):
    if a[0] is not None:
        ex.incref(a[0])


@stub('VP_XDECREF', 'Py_XDECREF')
def _s_xdecref(ex, a, site):
    if a[0] is not None:
        ex.decref(a[0])


@stub('Py_TYPE', 'borrowed type pointer')
def _s_type(ex, a, site):
    return ('type-of', a[0])


@stub('PyType_HasFeature', 'type flag test: either answer')
def _s_hasfeature(ex, a, site):
    return 1 if ex.decide('%s: type flag (e.g. is a str)' % site, ['set', 'clear']) == 'set' else 0


@stub('PyObject_TypeCheck', 'isinstance test on the type: either answer, runs no Python')
def _s_typecheck(ex, a, site):
    return 1 if ex.decide('%s: PyObject_TypeCheck' % site, ['no', 'yes']) == 'yes' else 0


@stub('PyErr_SetString', 'sets the error indicator')
def _s_seterr(ex, a, site):
    return None


@stub('PyErr_Clear', 'clears the error indicator')
def _s_clearerr(ex, a, site):
    return None


@stub('PySequence_Tuple', 'new reference to a tuple, or NULL; iterating a lazy sequence runs Python; items are held by the tuple')
def _s_seqtuple(ex, a, site):
    ex.havoc('PySequence_Tuple', site)
    if ex.decide('%s: PySequence_Tuple' % site, ['returns a tuple', 'fails (NULL)']).startswith('fails'):
        return None
    t = ex.new_obj('tuple', 'required-tuple', 1, fresh=True)
    t.frame = 0 if ex.foreign else 1
    return t


@stub('PyTuple_GET_SIZE', 'length of a tuple: 1 or 2 for `required`, 0..2 for resolution orders (fixed per tuple)')
def _s_tsize(ex, a, site):
    t = a[0]
    if getattr(t, 'size', None) is None:
        if t.label.startswith('required'):
            t.size = 1 if ex.decide('%s: len(required)' % site, ['== 1', '!= 1']) == '== 1' else 2
        else:
            t.size = int(ex.decide('%s: len(%s)' % (site, t.label), ['1', '0', '2']))
    return t.size


@stub('PyTuple_New', 'new tuple (allocation failure outside the claim: non-NULL)')
def _s_tnew(ex, a, site):
    t = ex.new_obj('tuple', 'new-tuple', 1, fresh=True)
    t.frame = 1
    t.size = a[0] if a and isinstance(a[0], int) else None
    if ex.foreign:
        t.frame = 0
    return t


@stub('PyTuple_GetSlice', 'new tuple holding new references to the sliced items, or NULL')
def _s_tslice(ex, a, site):
    if ex.decide('%s: PyTuple_GetSlice' % site, ['returns a tuple', 'fails (NULL)']).startswith('fails'):
        return None
    t = ex.new_obj('tuple', 'ro-slice', 1, fresh=True)
    t.frame = 0 if ex.foreign else 1
    src, low, high = a[0], a[1], a[2]
    n = getattr(src, 'size', None)
    t.slice_of = (src, low, high, n)
    if isinstance(n, int) and isinstance(low, int) and isinstance(high, int):
        t.size = max(0, min(high, n) - min(max(low, 0), n))
    return t


@stub('PyObject_RichCompareBool', 'comparison: -1 (error) / 0 / 1; may run Python for exotic operands')
def _s_rcb(ex, a, site):
    ex.havoc('PyObject_RichCompareBool', site)
    r = int(ex.decide('%s: comparison' % site, ['0', '1', '-1']))
    ex.cmp_log.append((ex.foreign, r))
    return r


@stub('PyTuple_SET_ITEM', 'stores an item, stealing the reference')
def _s_tset(ex, a, site):
    t, i, v = a
    t.fields[('%struct.PyTupleObject', (1, i))] = v
    if isinstance(v, Obj):
        if not ex.foreign:
            v.frame -= 1                  # stolen: the frame's reference becomes the tuple's
        if not v.immortal:
            v.direct = v.direct - 1
            v.lb -= 1
            v.holders.append(t)
    return None


@stub('PyDict_New', 'new empty dictionary (allocation failure outside the claim: non-NULL)')
def _s_dnew(ex, a, site):
    d = ex.new_obj('dict', 'new-dict', 1, fresh=True)
    d.frame = 0 if ex.foreign else 1
    return d


def _as_dict(d, api):
    """Objects found inside the caches are dictionaries when the code uses them as such (kind inferred from use)."""
    if not isinstance(d, Obj):
        raise Violation('null-deref', '%s(NULL, ...)' % api)
    if d.kind != 'dict':
        if d.kind == 'object' and d.label.startswith('value-in-'):
            d.kind, d.items = 'dict', []
        else:
            raise Inconclusive('%s on %r' % (api, d))


def _find(d, key):
    """Entries are [key object held by the dictionary, value, object the entry was found / stored under]."""
    for kv in d.items:
        if kv[2] is key:
            return kv
    return None


@stub('PyDict_GetItem', 'borrowed reference to the value or NULL (errors suppressed); hashing / comparing the key may run Python')
def _s_dget(ex, a, site):
    d, k = a
    _as_dict(d, 'PyDict_GetItem')
    ex.havoc('PyDict_GetItem', site)
    ex.use(d, 'PyDict_GetItem (after the key was hashed)')
    kv = _find(d, k)
    if kv is not None:
        return kv[1]
    if d.label.startswith('new-'):
        return None                       # a dictionary created on this path holds only what the path put in
    if ex.decide('%s: key %r in %r' % (site, k, d), ['absent', 'present']) == 'absent':
        return None
    # a value the dictionary already held: one reference owned by the dictionary, other holders unknown
    v = ex.new_obj('object', 'value-in-%s' % d.label, 0, ext_min=0)
    v.holders.append(d)
    if isinstance(k, Obj) and (k.label.startswith('required-tuple') or k.label.startswith('new-')):
        # an object created on this path cannot be the very key object of an older entry: the entry's key is an equal one
        kobj = ex.new_obj('object', 'equal-key-in-%s' % d.label, 0, ext_min=0)
        kobj.holders.append(d)
    else:
        kobj = k
        if isinstance(k, Obj) and not k.immortal:
            k.holders.append(d)         # one of the holders we did not see is this dictionary
    d.items.append([kobj, v, k])
    return v


@stub('PyDict_SetItem', 'stores key/value taking new references (0) or fails (-1); may run Python (hash / eq / destructor of a replaced value)')
def _s_dset(ex, a, site):
    d, k, v = a
    _as_dict(d, 'PyDict_SetItem')
    ex.havoc('PyDict_SetItem', site)
    ex.use(d, 'PyDict_SetItem (after the key was hashed)')
    if ex.decide('%s: PyDict_SetItem' % site, ['succeeds', 'fails (-1)']).startswith('fails'):
        return -1
    # M3: a value answered by _uncached_* before a havoc-changed() must not become reachable from self
    if isinstance(v, Obj) and v.epoch is not None and v.epoch < ex.epoch and d.oid in ex.reachable_dicts():
        raise Violation('stale-store', '%s stores %r (computed before changed() ran) into %r, which is reachable from self after it' % (site, v, d))
    kv = _find(d, k)
    if isinstance(v, Obj) and not v.immortal:
        v.holders.append(d)
    if kv is None:
        d.items.append([k, v, k])
        if isinstance(k, Obj) and not k.immortal:
            k.holders.append(d)
    else:
        old = kv[1]
        kv[1] = v
        if isinstance(old, Obj) and d in old.holders:
            old.holders.remove(d)
    return 0


@stub('PyObject_IsTrue', 'truth value 0/1 (or -1); may run Python for a str subclass')
def _s_istrue(ex, a, site):
    ex.havoc('PyObject_IsTrue', site)
    return 1 if ex.decide('%s: name is non-empty' % site, ['yes', 'no']) == 'yes' else 0


def _call_python(api):
    def fn(ex, a, site):
        meth = a[1].label if len(a) > 1 and isinstance(a[1], Obj) else ''
        epoch_before = ex.epoch
        ex.call_log.append((ex.foreign, meth))
        plain_attr = api == 'PyObject_GetAttr' and any(x in meth for x in ('str_generation', 'str_registry', 'strro'))
        iter_ro = api == 'PyObject_CallFunctionObjArgs' and isinstance(a[0], Obj) and 'PyTuple_Type' in a[0].label
        if not ((plain_attr or iter_ro) and not ex.opts.get('exotic', True)):
            # `_generation`, `_registry`, `ro` are plain attributes / a plain list in every supported configuration:
            # Python code can only run there for exotic registries (a property), so those points belong to the exotic pass
            ex.havoc(api, '%s %s' % (site, meth))
        if ex.decide('%s: %s %s' % (site, api, meth), ['returns an object', 'raises (NULL)']).startswith('raises'):
            return None
        c = ex.decide('%s: result' % site, ['a fresh object', 'None'])
        if c == 'None':
            o = ex.global_obj('_Py_NoneStruct')
            ex.incref(o)
            return o
        o = ex.new_obj('object', 'result-of-%s' % (meth.replace('@', '') or api), 1, ext_min=0)
        o.frame = 0 if ex.foreign else 1
        if 'uncached' in meth:
            o.epoch = epoch_before        # pessimistic: the answer may have been computed before the foreign code mutated
        return o
    return fn


for _api in ('PyObject_CallMethodObjArgs', 'PyObject_CallFunctionObjArgs', 'PyObject_GetAttr', 'providedBy'):
    STUBS[_api] = _call_python(_api)
    STUB_DOC[_api] = 'runs arbitrary Python; new reference or NULL'


@stub('_get_module', 'borrowed module pointer')
def _s_getmodule(ex, a, site):
    return ex.global_obj('module')


TARGETS = {
    '_lookup': (['required', 'provided', 'name', 'default'], ('name', 'default')),
    '_lookup1': (['required', 'provided', 'name', 'default'], ('name', 'default')),
    '_lookupAll': (['required', 'provided'], ()),
    '_subscriptions': (['required', 'provided'], ()),
    '_adapter_hook': (['provided', 'object', 'name', 'default'], ('name', 'default')),
    '_verify': ([], ()),
    'verify_changed': (['ignored'], ()),
}


def analyse(funcs, entry, exotic=True, max_havocs=2, budget_s=60.0, prefix=(), self_struct=None):
    self_struct = self_struct or ('VB' if entry in ('_verify', 'verify_changed') else 'LB')
    names, nullable = TARGETS[entry]
    ex = Exec(funcs, entry, len(names), self_struct, opts=dict(arg_names=names, nullable=nullable, exotic=exotic, max_havocs=max_havocs))
    ex.gl = {}
    ex.globals_ = {}
    st = ex.run_all(budget_s=budget_s, prefix=prefix)
    return st


def main():
    """Worker: python -m vlib.irsym <ir file> <entry> <exotic 0/1> <max_havocs> <budget> <prefix bits or ->  -> JSON on stdout"""
    import json
    import sys
    ir, entry, exotic, mh, budget, prefix = sys.argv[1:7]
    with open(ir) as f:
        text = f.read()
    funcs = parse(text)
    global MUTABLE_FUNCTION_STATICS
    # function-scope statics that are not constants (`static PyObject* x` inside a function is emitted as @function.x)
    MUTABLE_FUNCTION_STATICS = set(re.findall(r'^(@[A-Za-z_]\w*\.[A-Za-z_]\w*) = internal global ', text, re.M))
    pfx = () if prefix == '-' else tuple(int(c) for c in prefix)
    st = analyse(funcs, entry, exotic == '1', int(mh), float(budget), pfx)
    print('IRJSON ' + json.dumps(st, default=str))


if __name__ == '__main__':
    main()
