"""C08 All lookup entry points agree with lookup() and subscriptions().

E tier: every registry state (set of registrations / subscriptions from the alphabet, incl. factories that
return None) x every ordered pair of warm-up entry points; for every object key the two warm-up calls are made
first and then every entry point is called and compared with the expectation derived from the declarative
lookup model (C04's oracle) - so cold and warm answers, for the same and for a different entry point, are
all checked, as are default identity, super unwrapping and the ValueError for non-string names.
"""
import itertools

from vlib.harness import Harness
from vlib.symx import Violation, assume, native, pick, reached
from vlib import regmodel as M
from vlib import regprog as RP


def alphabet():
    ops = []
    k = 0
    for ri in (0, 1):
        for req in ((1,), (2,), (0,), (5,)):                # R0, R1, None, implementedBy(K0)
            for pi in (0, 1):
                nm = 'n' if (len(ops) % 3 == 2) else ''
                ops.append(('register', ri, req, pi, nm, 'v%d' % len(ops)))
    ops.append(('register', 0, (2,), 0, '', ('NF', 'nf0')))   # factory returning None
    ops.append(('register', 1, (1,), 0, 'n', ('NF', 'nf1')))
    ops.append(('register', 0, (2, 2), 0, '', 'w0'))
    ops.append(('register', 1, (1, 0), 0, '', 'w1'))
    ops.append(('register', 0, (2, 1), 0, '', ('NF', 'nf2')))
    ops.append(('register', 0, (), 0, '', 'u0'))
    ops.append(('subscribe', 0, (1,), 0, '', 's0'))
    ops.append(('subscribe', 1, (2,), 0, '', ('NF', 'snf')))
    ops.append(('subscribe', 0, (2,), None, '', 'h0'))
    ops.append(('subscribe', 0, (2, 1), 0, '', 's2'))
    # factories whose product is falsy but not None (an adapter with __len__ == 0): only None means "no adapter / no subscriber"
    ops.append(('subscribe', 0, (2,), 0, '', ('FF', 'sff')))
    ops.append(('register', 1, (2,), 1, '', ('FF', 'aff')))
    return ops


ALPHA = alphabet()
NA = len(ALPHA)
# the same (required, name) registered for related provided interfaces, in either registry: lookupAll/names vs lookup
PAIRS = [('register', 0, (1,), 0, 'n', 'a0'), ('register', 0, (1,), 1, 'n', 'a1'), ('register', 0, (1,), 3, 'n', 'a3'),
         ('register', 1, (1,), 0, 'n', 'b0'), ('register', 1, (1,), 1, 'n', 'b1'), ('register', 0, (2,), 1, 'n', 'c1'),
         ('register', 0, (1,), 1, '', 'd1'), ('register', 0, (1,), 0, '', 'd0'), ('register', 0, (1,), 2, 'n', 'a2'),
         ('register', 1, (2,), 3, '', 'e3')]
EPS = ['none', 'lookup', 'lookup+default', 'lookup1+default', 'adapter_hook+default', 'queryAdapter', 'queryMultiAdapter+default',
       'lookupAll', 'subscriptions']
NEP = len(EPS)
D = ('the-default',)


class Sup:
    """A super proxy key: super(K1, ob1) - adaptation must use the remainder of the MRO and pass ob1."""


def keys_for(u):
    """(label, object passed, underlying object, specification looked up)"""
    out = []
    for oi, ob in enumerate(u.objects):
        out.append((u.objnames[oi], ob, ob, u.providedBy(ob)))
    s = super(u.K1, u.ob1)
    out.append(('super(K1, K1())', s, u.ob1, u.providedBy(s)))
    return out


def expect_factory(model, u, ri, specs, p, nm, memo, got=None):
    """Expected factory for the key per the declarative model.  Returns ('none',) / ('one', v) / ('any', [..])."""
    adm = M.lookup_admissible(model, u, ri, specs, p, nm)
    if not adm:
        return None
    if len(adm) == 1:
        return adm[0]
    # ambiguous by the statement (unrelated provided interfaces): whichever is returned first must be returned always
    key = (ri, tuple(id(s) for s in specs), id(p), nm)
    if key not in memo:
        if got is None or not any(got is v for v in adm):
            raise Violation('ambiguous key answered with %r, admissible %r' % (got, adm), signature='C08:not-admissible')
        memo[key] = got
    return memo[key]


def call_ep(ep, reg, obj, spec, p, nm):
    if ep == 1:
        return reg.lookup((spec,), p, nm)
    if ep == 2:
        return reg.lookup((spec,), p, nm, D)
    if ep == 3:
        return reg.lookup1(spec, p, nm, D)
    if ep == 4:
        return reg.adapter_hook(p, obj, nm, D)
    if ep == 5:
        return reg.queryAdapter(obj, p, nm)
    if ep == 6:
        return reg.queryMultiAdapter((obj,), p, nm, D)
    if ep == 7:
        return reg.lookupAll((spec,), p)
    if ep == 8:
        return reg.subscriptions((spec,), p)
    return None


def adapted_ok(r, f, under):
    return isinstance(r, tuple) and r[:2] == ('made-by', f.tag) and len(r) == 3 and r[2] is under


def check_key(u, model, ri, e1, e2, label, obj, under, spec, pi, nm, hist, memo):
    reg = u.regs[ri]
    p = u.P[pi]
    ctx = 'state [%s]; reg%d, key (%s, P%d, %r); warm-up calls: %s, %s' % (hist, ri, label, pi, nm, EPS[e1], EPS[e2])
    for ep in (e1, e2):
        call_ep(ep, reg, obj, spec, p, nm)

    got = reg.lookup((spec,), p, nm)
    f = expect_factory(model, u, ri, [spec], p, nm, memo, got)
    if got is not f:
        raise Violation('%s: lookup() returned %r, expected %r' % (ctx, got, f), signature='C08:lookup')
    got = reg.lookup((spec,), p, nm, D)
    if got is not (f if f is not None else D):
        raise Violation('%s: lookup(default) returned %r, expected %r (defaults are returned by identity)' % (ctx, got, f or D),
                        signature='C08:lookup-default')
    for dflt in (None, D):
        got = reg.lookup1(spec, p, nm, dflt) if dflt is not None else reg.lookup1(spec, p, nm)
        if got is not (f if f is not None else dflt):
            raise Violation('%s: lookup1(default=%r) returned %r, lookup gives %r' % (ctx, dflt, got, f), signature='C08:lookup1')
    # adaptation family
    produced = None if f is None else f(under)
    for what, fn in (('adapter_hook', lambda d: reg.adapter_hook(p, obj, nm, d)),
                     ('queryAdapter', lambda d: reg.queryAdapter(obj, p, nm, d)),
                     ('queryMultiAdapter', lambda d: reg.queryMultiAdapter((obj,), p, nm, d))):
        for dflt in (None, D):
            got = fn(dflt)
            if produced is None:
                if got is not dflt:
                    raise Violation('%s: %s(default=%r) returned %r; no factory / factory returned None => the default' % (
                        ctx, what, dflt, got), signature='C08:' + what)
            elif not adapted_ok(got, f, under):
                raise Violation('%s: %s returned %r, expected factory %r called with the underlying object' % (ctx, what, got, f),
                                signature='C08:' + what)
    # lookupAll / names
    la = reg.lookupAll((spec,), p)
    names = sorted(reg.names((spec,), p))
    dla = dict(la)
    if len(dla) != len(tuple(la)) or sorted(dla) != names:
        raise Violation('%s: lookupAll %r and names %r disagree' % (ctx, la, names), signature='C08:names')
    if set(dla) != M.lookupall_names(model, u, ri, [spec], p):
        raise Violation('%s: lookupAll lists names %r, applicable names are %r' % (
            ctx, sorted(dla), sorted(M.lookupall_names(model, u, ri, [spec], p))), signature='C08:lookupAll-names')
    for n2, v in dla.items():
        exp = expect_factory(model, u, ri, [spec], p, n2, memo, reg.lookup((spec,), p, n2))
        if v is not exp:
            raise Violation('%s: lookupAll maps %r to %r, lookup gives %r' % (ctx, n2, v, exp), signature='C08:lookupAll')
    # subscribers vs subscriptions
    subs = list(reg.subscriptions((spec,), p))
    exp = M.subscriptions_expected(model, u, ri, [spec], p)
    err = M.check_subscriptions(subs, exp, ctx + ': subscriptions')
    if err:
        raise Violation(err, signature='C08:subscriptions')
    want = [r for r in (s(obj) for s in subs) if r is not None]
    got = reg.subscribers((obj,), p)
    if list(got) != want or any(a[-1] is not b[-1] for a, b in zip(got, want)):
        raise Violation('%s: subscribers() returned %r, calling subscriptions() in order gives %r' % (ctx, got, want),
                        signature='C08:subscribers')
    hs = list(reg.subscriptions((spec,), None))
    err = M.check_subscriptions(hs, M.subscriptions_expected(model, u, ri, [spec], None), ctx + ': handlers')
    if err:
        raise Violation(err, signature='C08:subscriptions')
    r = reg.subscribers((obj,), None)
    if len(r) != 0:
        raise Violation('%s: subscribers(objs, None) returned %r, handlers return nothing' % (ctx, r), signature='C08:handlers')


def check_badname(u, ri, obj, spec, pi, ctx):
    reg = u.regs[ri]
    p = u.P[pi]
    for bad in (42, None, b'n'):
        for what, fn in (('lookup', lambda: reg.lookup((spec,), p, bad)), ('lookup1', lambda: reg.lookup1(spec, p, bad)),
                         ('adapter_hook', lambda: reg.adapter_hook(p, obj, bad)), ('queryAdapter', lambda: reg.queryAdapter(obj, p, bad)),
                         ('lookup+default', lambda: reg.lookup((spec,), p, bad, D)),
                         ('lookup1+default', lambda: reg.lookup1(spec, p, bad, D))):
            try:
                r = fn()
            except ValueError:
                continue
            except Exception as e:
                raise Violation('%s: %s(name=%r) raised %s, ValueError expected' % (ctx, what, bad, type(e).__name__),
                                signature='C08:badname')
            raise Violation('%s: %s(name=%r) returned %r, ValueError expected' % (ctx, what, bad, r), signature='C08:badname')


def call_ep_multi(ep, reg, objs, specs, p, nm):
    """The warm-up entry points at arity != 1 (lookup1 / adapter_hook / queryAdapter exist for single adapters only)."""
    if ep in (1, 3):
        return reg.lookup(specs, p, nm)
    if ep == 2:
        return reg.lookup(specs, p, nm, D)
    if ep in (4, 5, 6):
        return reg.queryMultiAdapter(objs, p, nm, D) if objs else reg.lookup(specs, p, nm, D)
    if ep == 7:
        return reg.lookupAll(specs, p)
    if ep == 8:
        return reg.subscriptions(specs, p)
    return None


def check_all_multi(u, model, ri, specs, p, ctx, memo):
    reg = u.regs[ri]
    la = reg.lookupAll(specs, p)
    try:
        dla = dict(la)
        n_la = len(tuple(la))
    except Exception:
        raise Violation('%s: lookupAll returned %r, which is not a sequence of (name, value) pairs' % (ctx, la), signature='C08:lookupAll')
    names = sorted(reg.names(specs, p))
    if len(dla) != n_la or sorted(dla) != names:
        raise Violation('%s: lookupAll %r and names %r disagree' % (ctx, la, names), signature='C08:names')
    if set(dla) != M.lookupall_names(model, u, ri, list(specs), p):
        raise Violation('%s: lookupAll lists names %r, applicable names are %r' % (
            ctx, sorted(dla), sorted(M.lookupall_names(model, u, ri, list(specs), p))), signature='C08:lookupAll-names')
    for n2, v in dla.items():
        exp = expect_factory(model, u, ri, list(specs), p, n2, memo, reg.lookup(specs, p, n2))
        if v is not exp:
            raise Violation('%s: lookupAll maps %r to %r, lookup gives %r' % (ctx, n2, v, exp), signature='C08:lookupAll')


def check_multi(u, model, ri, hist, memo, e1=0, e2=0):
    reg = u.regs[ri]
    for (i, j) in ((0, 1), (1, 0), (2, 1), (1, 1)):
        o1, o2 = u.objects[i], u.objects[j]
        specs = [u.providedBy(o1), u.providedBy(o2)]
        for pi in (0, 1):
            p = u.P[pi]
            ctx = 'state [%s]; reg%d, key ((%s, %s), P%d); warm-up calls: %s, %s' % (hist, ri, u.objnames[i], u.objnames[j], pi, EPS[e1], EPS[e2])
            for ep in (e1, e2):
                call_ep_multi(ep, reg, (o1, o2), specs, p, '')
            r0 = reg.queryMultiAdapter((o1, o2), p, '', D)        # cold for this key when there is no warm-up
            got = reg.lookup(specs, p, '')
            f = expect_factory(model, u, ri, specs, p, '', memo, got)
            if got is not f or reg.lookup(specs, p, '', D) is not (f if f is not None else D):
                raise Violation('%s: lookup returned %r, expected %r' % (ctx, got, f), signature='C08:lookup')
            produced = None if f is None else f(o1, o2)
            for r in (r0, reg.queryMultiAdapter((o1, o2), p, '', D)):
                if produced is None:
                    if r is not D:
                        raise Violation('%s: queryMultiAdapter returned %r, default expected' % (ctx, r), signature='C08:queryMultiAdapter')
                elif not (isinstance(r, tuple) and r[:2] == ('made-by', f.tag) and r[2] is o1 and r[3] is o2):
                    raise Violation('%s: queryMultiAdapter returned %r, expected %r(o1, o2)' % (ctx, r, f), signature='C08:queryMultiAdapter')
            subs = list(reg.subscriptions(specs, p))
            err = M.check_subscriptions(subs, M.subscriptions_expected(model, u, ri, specs, p), ctx + ': subscriptions')
            if err:
                raise Violation(err, signature='C08:subscriptions')
            want = [x for x in (s(o1, o2) for s in subs) if x is not None]
            if list(reg.subscribers((o1, o2), p)) != want:
                raise Violation('%s: subscribers() differs from calling subscriptions()' % ctx, signature='C08:subscribers')
            check_all_multi(u, model, ri, tuple(specs), p, ctx, memo)
    # arity 0 (utilities)
    for pi in (0, 1):
        p = u.P[pi]
        for ep in (e1, e2):
            call_ep_multi(ep, reg, (), (), p, '')
        got = reg.lookup((), p, '')
        f = expect_factory(model, u, ri, [], p, '', memo, got)
        if got is not f or reg.lookup((), p, '', D) is not (f if f is not None else D):
            raise Violation('state [%s]; reg%d.lookup((), P%d) returned %r, expected %r (warm-up calls: %s, %s)' % (
                hist, ri, pi, got, f, EPS[e1], EPS[e2]), signature='C08:lookup')
        check_all_multi(u, model, ri, (), p, 'state [%s]; reg%d, arity 0, P%d; warm-up calls: %s, %s' % (hist, ri, pi, EPS[e1], EPS[e2]), memo)


def run_state(flavour, ops, e1, e2):
    u = M.RegUniverse(flavour=flavour, nregs=2)
    model = M.Model(2)
    for op in ops:
        RP.apply_op(u, model, op)
    hist = RP.fmt(ops)
    memo = {}
    keys = keys_for(u)
    names = ('', 'n')
    for ri in (0, 1):
        for (label, obj, under, spec) in keys:
            for pi in (0, 1):
                for nm in names:
                    check_key(u, model, ri, e1, e2, label, obj, under, spec, pi, nm, hist, memo)
                if e1 % 2 == 0:
                    check_badname(u, ri, obj, spec, pi, 'state [%s]; reg%d (%s, P%d) warm' % (hist, ri, label, pi))
        check_multi(u, model, ri, hist, memo, e1, e2)
    # non-string names are rejected on a cold registry too
    u2 = M.RegUniverse(flavour=flavour, nregs=2)
    m2 = M.Model(2)
    for op in ops:
        RP.apply_op(u2, m2, op)
    for (label, obj, under, spec) in keys_for(u2)[:2]:
        check_badname(u2, 0, obj, spec, 0, 'state [%s]; reg0 (%s, P0) cold' % (hist, label))


def make_e(params, part, nparts):
    L = params['L']
    flavour = params.get('flavour', 'adapter')
    ALPHA = PAIRS if params.get('pairs') else globals()['ALPHA']
    NA = len(ALPHA)
    NE2 = 1 if params.get('pairs') else NEP

    def h(n: int, o1: int, o2: int, o3: int, w1: int, w2: int):
        ln = pick(n, L + 1)
        idx = []
        if ln:
            c1 = pick(o1, NA)
            assume(c1 % nparts == part)
            idx.append(c1)
            for o in (o2, o3)[:ln - 1]:
                c = pick(o, NA)
                assume(c > idx[-1])          # sets: registration order is C04/C09's business
                idx.append(c)
        else:
            assume(part == 0)
        e1 = pick(w1, NEP)
        e2 = pick(w2, NE2)
        ops = tuple(ALPHA[i] for i in idx)
        reached((tuple(idx), e1, e2), dict(flavour=flavour, state=RP.fmt(ops), warmup=[EPS[e1], EPS[e2]]))
        native(run_state, flavour, ops, e1, e2)
    return h


_ENC = ['zope.interface.adapter:LookupBaseFallback.lookup', 'zope.interface.adapter:LookupBaseFallback.lookup1',
        'zope.interface.adapter:LookupBaseFallback.queryAdapter', 'zope.interface.adapter:LookupBaseFallback.adapter_hook',
        'zope.interface.adapter:LookupBaseFallback.lookupAll', 'zope.interface.adapter:LookupBaseFallback.subscriptions',
        'zope.interface.adapter:AdapterLookupBase.queryMultiAdapter', 'zope.interface.adapter:AdapterLookupBase.names',
        'zope.interface.adapter:AdapterLookupBase.subscribers', 'zope.interface.adapter:_lookupAll',
        'zope.interface._zope_interface_coptimizations:LookupBase', 'zope.interface._zope_interface_coptimizations:VerifyingBase']

_B = ('2-registry chain; every set of <=%s registrations/subscriptions from 28 (factories whose product is falsy but not None included; arity 0-2, names, None as required, class declaration keys, '
      'factories returning None, subscription adapters, a handler) x every ordered pair of warm-up entry points (9 x 9: none, lookup with '
      'and without default, lookup1, adapter_hook, queryAdapter, queryMultiAdapter, lookupAll, subscriptions); keys: 4 objects + a super '
      'proxy x 2 provided x 2 names from both registries, object pairs, arity 0; non-string names 42 / None / b"n" cold and warm')

def make_e_after_base_change(params, part, nparts):
    """The entry points agree with each other when each of them is the *first* one asked after a registry behind the front one changed
    (verifying chains: every entry point has to notice the change by itself).  Programs of vlib.traceprog family 'snap'."""
    from vlib import traceprog as TP
    names = ['lookup', 'lookup1', 'queryAdapter', 'adapter_hook', 'lookupAll', 'names', 'subscriptions', 'lookup(arity 2)']

    def run(prog):
        tr = TP.run_snap(prog)
        if tr is None:
            return False
        a = tr['after']
        what = 'chain of %d VerifyingAdapterRegistry, %s in registry #%d, caches %s, %s asked first afterwards' % (
            prog[0], TP.SNAP_MUT[prog[2]], prog[1], 'warm' if prog[3] else 'cold', names[prog[4]])
        if a[0] != a[1]:
            raise Violation('%s: lookup answers %s, lookup1 %s' % (what, a[0], a[1]), signature='C08:after-base-change:lookup1')
        if a[2] != a[3] and not (a[2].startswith('raise') and a[3].startswith('raise')):
            raise Violation('%s: queryAdapter answers %s, adapter_hook %s' % (what, a[2], a[3]), signature='C08:after-base-change:queryAdapter')
        if ("''" in a[5]) != (a[0] != 'None'):
            raise Violation('%s: names() is %s although lookup answers %s' % (what, a[5], a[0]), signature='C08:after-base-change:names')
        return True

    def h(L: int, k: int, m: int, w: int, f: int = 0):
        cL = pick(L, 3) + 2
        ck = pick(k, 3) + 1
        assume(ck < cL)
        prog = [cL, ck, pick(m, len(TP.SNAP_MUT)), pick(w, 2), pick(f, 8)]
        ok = native(run, prog)
        assume(ok)
        reached(tuple(prog), dict(program=prog))
    return h


HARNESSES = [
    Harness('e_after_base_change', make_e_after_base_change, kind='E', impls=('py', 'c'),
            tiers=dict(quick=dict(budget_s=30, parts=1), thorough=dict(budget_s=60, parts=1)),
            encoded=['zope.interface.adapter:VerifyingBaseFallback._verify', 'zope.interface._zope_interface_coptimizations:VerifyingBase'],
            bounds='chains of 2..4 VerifyingAdapterRegistry; one of 7 mutations in a registry behind the front one; caches warm or cold; each of '
                   'the 8 entry points asked first afterwards, the others after it; both builds',
            oracle='lookup == lookup1, queryAdapter == adapter_hook, names() lists the unnamed registration iff lookup finds it'),
    Harness('e_entry_adapter', make_e, kind='E', impls=('py', 'c'),
            tiers=dict(quick=dict(budget_s=150, parts=14, params=dict(L=1)),
                       thorough=dict(budget_s=3000, parts=14, params=dict(L=2))),
            encoded=_ENC, bounds=_B % '1 (thorough 2)',
            outside='states with more registrations; more than two warm-up calls per key',
            oracle='expected factory from the declarative lookup model (C04); every other entry point derived from it by the statement: '
                   'lookup1 == lookup, lookupAll/names == per-name lookup, queryAdapter/adapter_hook/queryMultiAdapter == factory(underlying '
                   'objects) with None => default (by identity), subscribers == subscriptions called in order minus None, handlers => (), '
                   'ValueError for non-string names'),
    Harness('e_entry_verifying', make_e, kind='E', impls=('py', 'c'),
            tiers=dict(quick=dict(budget_s=150, parts=14, params=dict(L=1, flavour='verifying'), impls=('c',)),
                       thorough=dict(budget_s=3000, parts=14, params=dict(L=2, flavour='verifying'))),
            encoded=_ENC, bounds='as e_entry_adapter for VerifyingAdapterRegistry', oracle='as e_entry_adapter'),
    Harness('e_entry_pairs', make_e, kind='E', impls=('py', 'c'),
            tiers=dict(quick=dict(budget_s=150, parts=10, params=dict(L=3, pairs=True)),
                       thorough=dict(budget_s=3000, parts=10, params=dict(L=4, pairs=True))),
            encoded=_ENC,
            bounds='every set of <=3 (thorough 4) registrations from 10 that share a required key and a name across related provided interfaces '
                   '(P0, P1(P0), P2(P0), P3(P1,P2)) and both registries x 9 warm-up entry points; same keys and checks as e_entry_adapter',
            oracle='as e_entry_adapter (in particular dict(lookupAll) == {name: lookup(name)} when several provided interfaces carry the same name)'),
]

MANIFEST = {
    'engine': 'symx',
    'technique': 'symbolic execution (CrossHair engine + z3) over solver-enumerated registry states x ordered pairs of warm-up entry points; '
                 'every entry point of the real registries (both flavours, both builds) compared with expectations derived from the declarative '
                 'lookup model',
    'text': 'Bounded-exhaustive over registry states and cache temperatures: for each state and each ordered pair of warm-up calls, every '
            'entry point is called for every key and compared with what the statement derives from lookup()/subscriptions(). The entry '
            'points share caches in non-obvious ways, so disagreement needs a particular order of warm-up calls, which is enumerated.',
    'note': 'Trusted: the declarative lookup model (C04 oracle).',
}
