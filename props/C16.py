"""C16 Components listings, lookups and events stay mutually consistent.

E tier: every history up to the bound of the eight register*/unregister* methods (equal, identical, hashable and
unhashable components, names, related provided interfaces, re-initialisation) on a real Components object; after
every call the four listings, every query method, the emitted events, the return value and the consistency probe
are compared with a dictionary/list model written from IComponentRegistry's documentation and the statement.
"""
from vlib.harness import Harness
from vlib.symx import Collector, Violation, assume, native, pick, reached
from vlib import universe as U


class Comp:
    """Hashable component; equal to other Comp with the same eq id."""

    def __init__(self, tag, eq):
        self.tag, self.eq = tag, eq

    def __eq__(self, other):
        return isinstance(other, (Comp, UComp)) and other.eq == self.eq

    def __ne__(self, other):
        return not self.__eq__(other)

    def __hash__(self):
        return hash(self.eq)

    def __call__(self, *objs):
        return ('made-by', self.tag) + objs

    def __repr__(self):
        return '<%s>' % self.tag


class UComp(Comp):
    """Unhashable component that is also false in a boolean context (the classic one: an empty dict subclass used as a settings utility)."""
    __hash__ = None

    def __len__(self):
        return 0


class World:
    def __init__(self):
        from zope.interface import Interface, implementer
        from zope.interface.registry import Components
        mod = U.fresh_module_name()
        self.I, self.ISub = U.build_ifaces(((), (0,)), prefix='IU', module=mod)
        (self.IR,) = U.build_ifaces(((),), prefix='IR', module=mod)
        self.P = [self.I, self.ISub]
        self.ob = implementer(self.IR)(type('Ob', (object,), {}))()
        self.c = Components('c')
        self.comps = {'a': Comp('a', 'A'), 'a2': Comp('a2', 'A'), 'u': UComp('u', 'UU'), 'u2': UComp('u2', 'UU'),
                      'f': Comp('f', 'F'), 'f2': Comp('f2', 'F'), 'g': Comp('g', 'G')}


# model ---------------------------------------------------------------------

class Model:
    def __init__(self):
        self.utils = {}       # (pi, name) -> (comp, info)
        self.adapters = {}    # (pi, name) -> (factory, info)       required is always (IR,)
        self.subs = []        # (pi, factory, info)
        self.handlers = []    # (factory, info)


def alphabet(kind):
    ops = []
    if kind in ('full', 'util'):
        comps = ('a', 'a2', 'u', 'u2')
        infos = ('', 'x') if kind == 'full' else ('',)
        for c in comps:
            for pi in (0, 1):
                for nm in ('', 'n'):
                    for info in infos:
                        ops.append(('registerUtility', c, pi, nm, info))
        for c in ((None, 'a', 'a2', 'u') if kind == 'full' else (None, 'a', 'u')):
            for pi in (0, 1):
                for nm in ('', 'n'):
                    ops.append(('unregisterUtility', c, pi, nm))
    if kind in ('full', 'adapt'):
        for f in ('f', 'f2', 'g'):
            for pi in (0, 1):
                for info in ('', 'x'):
                    ops.append(('registerAdapter', f, pi, '', info))
        for f in (None, 'f', 'g'):
            for pi in (0, 1):
                ops.append(('unregisterAdapter', f, pi, ''))
        for f in ('f', 'f2', 'g'):
            ops.append(('registerSubscriptionAdapter', f, 0))
            ops.append(('registerHandler', f))
        for f in (None, 'f', 'g'):
            ops.append(('unregisterSubscriptionAdapter', f, 0))
            ops.append(('unregisterHandler', f))
    if kind == 'full':
        ops.append(('registerUtilityFactory', 'a', 0, ''))
        ops.append(('reinit',))
    if kind == 'full':
        # the volatile per-component count cache disappears (what persistence does to `_v_` attributes on a load): rebuilt on demand
        # (the 'util' histories take it as a flag: dropped before their last operation)
        ops.append(('ghost',))
    return ops


def fmt_op(op):
    return '%s(%s)' % (op[0], ', '.join('I' if (isinstance(a, int) and a == 0 and i == 2 and op[0].endswith('Utility')) else repr(a)
                                         for i, a in enumerate(op[1:], 1)))


def apply(w, m, op, col, hist):
    """Apply to the real Components and to the model; returns (expected events, expected return, actual return)."""
    c = w.c
    k = op[0]
    exp_ev, exp_ret, ret = [], None, None
    if k == 'registerUtility':
        _, cn, pi, nm, info = op
        comp = w.comps[cn]
        ret = c.registerUtility(comp, w.P[pi], nm, info)
        old = m.utils.get((pi, nm))
        if old is not None and old[0] == comp and old[1] == info:
            pass                                            # already registered: no-op, no event
        else:
            if old is not None:
                exp_ev.append(('Unregistered', 'UtilityRegistration', pi, nm))
            m.utils[(pi, nm)] = (comp, info)
            exp_ev.append(('Registered', 'UtilityRegistration', pi, nm))
    elif k == 'registerUtilityFactory':
        _, cn, pi, nm = op
        comp = w.comps[cn]
        ret = c.registerUtility(factory=lambda: comp, provided=w.P[pi], name=nm)
        old = m.utils.get((pi, nm))
        if old is not None and old[0] == comp and old[1] == '':
            pass
        else:
            if old is not None:
                exp_ev.append(('Unregistered', 'UtilityRegistration', pi, nm))
            m.utils[(pi, nm)] = (comp, '')
            exp_ev.append(('Registered', 'UtilityRegistration', pi, nm))
    elif k == 'unregisterUtility':
        _, cn, pi, nm = op
        comp = w.comps[cn] if cn else None
        ret = c.unregisterUtility(comp, w.P[pi], nm)
        old = m.utils.get((pi, nm))
        if old is None or (comp is not None and comp != old[0]):
            exp_ret = False
        else:
            del m.utils[(pi, nm)]
            exp_ev.append(('Unregistered', 'UtilityRegistration', pi, nm))
            exp_ret = True
    elif k == 'registerAdapter':
        _, fn, pi, nm, info = op
        f = w.comps[fn]
        ret = c.registerAdapter(f, (w.IR,), w.P[pi], nm, info)
        old = m.adapters.get((pi, nm))
        if old is not None and old[0] is f and old[1] == info:
            exp_ev_literal = []                              # nothing added or removed
            known = 'C16:event:registerAdapter-identical-again-emits-Registered'
        elif old is not None:
            exp_ev_literal = [('Unregistered', 'AdapterRegistration', pi, nm), ('Registered', 'AdapterRegistration', pi, nm)]
            known = 'C16:event:registerAdapter-replace-no-Unregistered'
        else:
            exp_ev_literal = [('Registered', 'AdapterRegistration', pi, nm)]
            known = None
        m.adapters[(pi, nm)] = (f, info)
        exp_ev = (exp_ev_literal, known, [('Registered', 'AdapterRegistration', pi, nm)])
    elif k == 'unregisterAdapter':
        _, fn, pi, nm = op
        f = w.comps[fn] if fn else None
        ret = c.unregisterAdapter(f, (w.IR,), w.P[pi], nm)
        old = m.adapters.get((pi, nm))
        if old is None or (f is not None and f != old[0]):
            exp_ret = False
        else:
            del m.adapters[(pi, nm)]
            exp_ev.append(('Unregistered', 'AdapterRegistration', pi, nm))
            exp_ret = True
    elif k == 'registerSubscriptionAdapter':
        _, fn, pi = op
        f = w.comps[fn]
        ret = c.registerSubscriptionAdapter(f, (w.IR,), w.P[pi])
        m.subs.append((pi, f, ''))
        exp_ev.append(('Registered', 'SubscriptionRegistration', pi, ''))
    elif k == 'unregisterSubscriptionAdapter':
        _, fn, pi = op
        f = w.comps[fn] if fn else None
        ret = c.unregisterSubscriptionAdapter(f, (w.IR,), w.P[pi])
        keep = [s for s in m.subs if not (s[0] == pi and (f is None or s[1] == f))]
        removed = len(m.subs) - len(keep)
        m.subs = keep
        exp_ret = removed > 0
        lit = [('Unregistered', 'SubscriptionRegistration', pi, '')] * removed
        exp_ev = (lit, 'C16:event:unregisterSubscriptionAdapter-removes-several-one-event' if removed > 1 else None,
                  lit[:1])
    elif k == 'registerHandler':
        _, fn = op
        f = w.comps[fn]
        ret = c.registerHandler(f, (w.IR,))
        m.handlers.append((f, ''))
        exp_ev.append(('Registered', 'HandlerRegistration', None, ''))
    elif k == 'unregisterHandler':
        _, fn = op
        f = w.comps[fn] if fn else None
        ret = c.unregisterHandler(f, (w.IR,))
        keep = [s for s in m.handlers if not (f is None or s[0] == f)]
        removed = len(m.handlers) - len(keep)
        m.handlers = keep
        exp_ret = removed > 0
        lit = [('Unregistered', 'HandlerRegistration', None, '')] * removed
        exp_ev = (lit, 'C16:event:unregisterHandler-removes-several-one-event' if removed > 1 else None, lit[:1])
    elif k == 'reinit':
        c.__init__('c')
        m.__init__()
    elif k == 'ghost':
        c._v_utility_registrations_cache = None
    return exp_ev, exp_ret, ret


def check_all(w, m, hist, col):
    c = w.c
    # ---- listings ----------------------------------------------------------
    got = sorted((w.P.index(r.provided), r.name, id(r.component), r.info) for r in c.registeredUtilities())
    exp = sorted((pi, nm, id(v[0]), v[1]) for (pi, nm), v in m.utils.items())
    if got != exp:
        raise Violation('history [%s]: registeredUtilities() lists %r, live registrations are %r' % (
            hist, [(a, b, d) for a, b, _, d in got], [(a, b, d) for a, b, _, d in exp]), signature='C16:listing:utilities')
    got = sorted((w.P.index(r.provided), r.name, id(r.factory), r.info) for r in c.registeredAdapters())
    exp = sorted((pi, nm, id(v[0]), v[1]) for (pi, nm), v in m.adapters.items())
    if got != exp or any(tuple(r.required) != (w.IR,) for r in c.registeredAdapters()):
        raise Violation('history [%s]: registeredAdapters() differs from the live registrations' % hist, signature='C16:listing:adapters')
    got = [(w.P.index(r.provided), id(r.factory), r.info) for r in c.registeredSubscriptionAdapters()]
    if got != [(pi, id(f), i) for (pi, f, i) in m.subs]:
        raise Violation('history [%s]: registeredSubscriptionAdapters() differs from the live registrations' % hist,
                        signature='C16:listing:subscriptions')
    got = [(id(r.factory), r.info) for r in c.registeredHandlers()]
    if got != [(id(f), i) for (f, i) in m.handlers]:
        raise Violation('history [%s]: registeredHandlers() differs from the live registrations' % hist, signature='C16:listing:handlers')
    # ---- queries -----------------------------------------------------------
    for qi, Q in enumerate(w.P):
        for nm in ('', 'n'):
            # candidates: registrations under that name whose provided is-or-extends Q; the most general provided wins
            cands = [(pi, v[0]) for (pi, n2), v in m.utils.items() if n2 == nm and pi >= qi]
            adm = [v for (pi, v) in cands if pi == min(p for p, _ in cands)] if cands else []
            got = c.queryUtility(Q, nm, 'DEFAULT')
            if not adm:
                if got != 'DEFAULT' or not isinstance(got, str):
                    raise Violation('history [%s]: queryUtility(%s, %r) returns %r, nothing is registered' % (hist, 'I ISub'.split()[qi], nm, got),
                                    signature='C16:query:utility-stale')
            elif not any(got is v for v in adm):
                raise Violation('history [%s]: queryUtility(%s, %r) returns %r, live registration is %r' % (
                    hist, 'I ISub'.split()[qi], nm, got, adm), signature='C16:query:utility')
            try:
                g2 = c.getUtility(Q, nm)
                if not adm or not any(g2 is v for v in adm):
                    raise Violation('history [%s]: getUtility(%s, %r) returns %r' % (hist, 'I ISub'.split()[qi], nm, g2),
                                    signature='C16:query:utility-stale')
            except LookupError:
                if adm:
                    raise Violation('history [%s]: getUtility raises although a utility is registered' % hist, signature='C16:query:utility')
        names = {n2 for (pi, n2) in m.utils if pi >= qi}
        got = list(c.getUtilitiesFor(Q))
        if sorted(n for n, _ in got) != sorted(names):
            raise Violation('history [%s]: getUtilitiesFor(%s) lists names %r, live names %r' % (
                hist, 'I ISub'.split()[qi], sorted(n for n, _ in got), sorted(names)), signature='C16:query:getUtilitiesFor')
        # every (provided, component) pair once, compared up to equality of components
        live = []
        for (pi, n2), v in m.utils.items():
            if pi >= qi and not any(p2 == pi and x == v[0] for p2, x in live):
                live.append((pi, v[0]))
        got = list(c.getAllUtilitiesRegisteredFor(Q))
        rest = list(got)
        for (pi, x) in live:
            hit = [y for y in rest if y == x]
            if not hit:
                raise Violation('history [%s]: getAllUtilitiesRegisteredFor(%s) = %r misses the registered component %r' % (
                    hist, 'I ISub'.split()[qi], got, x), signature='C16:query:allUtilities-missing')
            rest.remove(hit[0])
        if rest:
            raise Violation('history [%s]: getAllUtilitiesRegisteredFor(%s) = %r lists %r which is not (or no longer) registered' % (
                hist, 'I ISub'.split()[qi], got, rest), signature='C16:query:allUtilities-stale')
        # adapters
        cands = [(pi, v[0]) for (pi, n2), v in m.adapters.items() if n2 == '' and pi >= qi]
        adm = [v for (pi, v) in cands if pi == min(p for p, _ in cands)] if cands else []
        got = c.queryAdapter(w.ob, Q, '', 'DEFAULT')
        if not adm:
            if got != 'DEFAULT' or not isinstance(got, str):
                raise Violation('history [%s]: queryAdapter finds %r, no adapter is registered' % (hist, got), signature='C16:query:adapter-stale')
        elif not any(isinstance(got, tuple) and got[1] == v.tag and got[2] is w.ob for v in adm):
            raise Violation('history [%s]: queryAdapter returns %r, live adapter %r' % (hist, got, adm), signature='C16:query:adapter')
        exp = sorted(f.tag for (pi, f, _) in m.subs if pi >= qi)
        got = sorted(r[1] for r in c.subscribers((w.ob,), Q))
        if got != exp:
            raise Violation('history [%s]: subscribers((ob,), %s) come from %r, live subscription adapters %r' % (
                hist, 'I ISub'.split()[qi], got, exp), signature='C16:query:subscribers')
    from zope.interface import providedBy
    got = sorted(h.tag for h in c.adapters.subscriptions((providedBy(w.ob),), None))
    exp = sorted(f.tag for (f, _) in m.handlers)
    if got != exp:
        raise Violation('history [%s]: handlers for the object are %r, live handlers %r' % (hist, got, exp), signature='C16:query:handlers')
    c.handle(w.ob)
    # ---- consistency probe -------------------------------------------------
    r = c.rebuildUtilityRegistryFromLocalCache()
    if r['needed_registered'] or r['needed_subscribed']:
        raise Violation('history [%s]: rebuildUtilityRegistryFromLocalCache() finds something to repair: %r' % (hist, r),
                        signature='C16:probe')


def run_history(ops, ghost_before_last=False):
    import zope.interface.registry as R
    w = World()
    m = Model()
    events = []
    saved = R.notify
    R.notify = lambda ev: events.append((type(ev).__name__, type(ev.object).__name__,
                                         w.P.index(ev.object.provided) if getattr(ev.object, 'provided', None) in w.P else None,
                                         ev.object.name))
    col = Collector()
    try:
        hist = []
        for k_, op in enumerate(ops):
            if ghost_before_last and k_ == len(ops) - 1:
                w.c._v_utility_registrations_cache = None       # volatile attribute lost (persistence); rebuilt on demand
                hist.append('<volatile utility count cache dropped>')
            del events[:]
            hist.append(fmt_op(op))
            h = '; '.join(hist)
            exp_ev, exp_ret, ret = apply(w, m, op, col, h)
            got_ev = list(events)
            if isinstance(exp_ev, tuple):
                literal, known, documented = exp_ev
                if got_ev != literal:
                    if known is not None and got_ev == documented:
                        col.report('history [%s]: events %r; one event per registration actually added or removed would be %r' % (
                            h, got_ev, literal), signature=known)
                    else:
                        raise Violation('history [%s]: events %r, expected %r' % (h, got_ev, literal), signature='C16:events')
            elif got_ev != exp_ev:
                raise Violation('history [%s]: events %r, expected %r' % (h, got_ev, exp_ev), signature='C16:events')
            if op[0].startswith('unregister') and ret is not exp_ret:
                raise Violation('history [%s]: returned %r, expected %r (whether anything was removed)' % (h, ret, exp_ret),
                                signature='C16:return')
            check_all(w, m, h, col)
    finally:
        R.notify = saved
    col.finish()


def make_e(params, part, nparts):
    alpha = alphabet(params['kind'])
    NA = len(alpha)
    L = params['L']

    def h(n: int, o1: int, o2: int, o3: int, o4: int, gh: int = 0):
        c1 = pick(o1, NA)
        assume(c1 % nparts == part)
        ln = pick(n, L) + 1
        idx = [c1] + [pick(o, NA) for o in (o2, o3, o4)[:ln - 1]]
        ops = tuple(alpha[i] for i in idx)
        ghost = False
        if params['kind'] == 'util' and ln >= 3:
            ghost = bool(pick(gh, 2))
        reached(tuple(idx) + (ghost,), dict(history=[fmt_op(o) for o in ops], count_cache_dropped_before_last=ghost))
        native(run_history, ops, ghost)
    return h


_ENC = ['zope.interface.registry:Components.registerUtility', 'zope.interface.registry:Components.unregisterUtility',
        'zope.interface.registry:Components.registerAdapter', 'zope.interface.registry:Components.unregisterAdapter',
        'zope.interface.registry:Components.registerSubscriptionAdapter', 'zope.interface.registry:Components.unregisterSubscriptionAdapter',
        'zope.interface.registry:Components.registerHandler', 'zope.interface.registry:Components.unregisterHandler',
        'zope.interface.registry:_UtilityRegistrations.registerUtility', 'zope.interface.registry:_UtilityRegistrations.unregisterUtility',
        'zope.interface.registry:_UnhashableComponentCounter.__setitem__',
        'zope.interface.registry:Components.rebuildUtilityRegistryFromLocalCache']

_OR = ('dictionary/list model from IComponentRegistry: listings = live registrations; queryUtility/getUtility/getUtilitiesFor/'
       'getAllUtilitiesRegisteredFor/queryAdapter/subscribers/handlers derived from the model; events: literal reading of the statement '
       '(one event per registration added or removed, replaced utility => Unregistered then Registered, no-op none); unregister* return '
       'values; rebuildUtilityRegistryFromLocalCache() finds nothing')

HARNESSES = [
    Harness('e_components', make_e, kind='E', impls=('py',),
            tiers=dict(quick=dict(budget_s=150, parts=16, params=dict(kind='full', L=2)),
                       thorough=dict(budget_s=3000, parts=16, params=dict(kind='full', L=2))),
            encoded=_ENC,
            bounds='every history of <=2 calls from 82: registerUtility (hashable a, a2 == a, unhashable and falsy u, u2 == u; provided I / ISub(I); names '
                   '"", "n"; info "", "x"; factory form), unregisterUtility (None / a / a2 / u), registerAdapter / unregisterAdapter (f, f2 == f, g), '
                   'subscription adapters and handlers (register f / f2 / g, unregister None / f / g), re-__init__',
            outside='histories longer than the bound (see the two deeper harnesses); named subscribers (unsupported by the API)', oracle=_OR,
            stubs=['zope.interface.registry.notify replaced by a recorder']),
    Harness('e_utilities_deep', make_e, kind='E', impls=('py',),
            tiers=dict(quick=dict(budget_s=150, parts=16, params=dict(kind='util', L=3)),
                       thorough=dict(budget_s=3000, parts=16, params=dict(kind='util', L=4))),
            encoded=_ENC,
            bounds='utilities only: every history of <=3 (thorough 4) calls from 28 (register a / a2 / u / u2 (== u, unhashable and falsy) under I / ISub and "" / "n"; unregister None / a / u): '
                   'same component under several names, replaced, then removed; the per-(provided, component) counting and its switch to the '
                   'non-hashing strategy', oracle=_OR, stubs=['notify recorder']),
    Harness('e_adapters_deep', make_e, kind='E', impls=('py',),
            tiers=dict(quick=dict(budget_s=150, parts=16, params=dict(kind='adapt', L=3)),
                       thorough=dict(budget_s=3000, parts=16, params=dict(kind='adapt', L=4))),
            encoded=_ENC,
            bounds='adapters, subscription adapters and handlers only: every history of <=3 (thorough 4) calls from 30', oracle=_OR,
            stubs=['notify recorder']),
]

MANIFEST = {
    'engine': 'symx',
    'technique': 'symbolic execution (CrossHair engine + z3) over solver-enumerated histories of the eight Components register/unregister '
                 'methods on a real Components object; dictionary/list model oracle for listings, queries, events, return values and the '
                 'consistency probe',
    'text': 'Bounded-exhaustive over every call history up to the bound with equal / identical / hashable / unhashable components. The '
            'per-(provided, component) counting that decides subscription only goes wrong after particular sequences (same component under '
            'several names, replaced, then removed), which the enumeration covers.',
    'note': 'Trusted: the model. Four open known findings (narrow signatures) where event emission differs from the literal statement.',
}
