"""C18 Method descriptions mirror the described function's real signature."""
import inspect

from vlib.harness import Harness
from vlib.symx import Violation, assume, native, pick, reached

CO_VARARGS, CO_VARKEYWORDS = 4, 8
POOL = tuple('n%d' % i for i in range(24))     # enough names for the largest thorough layout (8 + 3 + 3)


class _Code:
    pass


class _Func:
    pass


def _classify(nkwonly, has_va, has_kw, what):
    if nkwonly > 0 and (has_va or has_kw) and what in ('varargs', 'kwargs'):
        return 'C18:kwonly>0:varargs-index'
    return 'C18:%s' % what


def make_s_layout(params, part, nparts):
    """S tier: the real fromFunction on a duck-typed function whose code-object
    counters are symbolic integers; only assumption: the documented layout of
    co_varnames (positional incl. positional-only, keyword-only, *name, **name,
    then locals)."""
    from zope.interface.interface import fromFunction
    MAXA = params.get('max_args', 4)
    MAXK = params.get('max_kwonly', 3)

    def h(argcount: int, kwonly: int, has_va: int, has_kw: int, ndefaults: int,
          imlevel: int, extra_locals: int):
        argcount = pick(argcount, MAXA + 1)
        assume(argcount % nparts == part)
        kwonly = pick(kwonly, MAXK + 1)
        imlevel = pick(imlevel, 2)
        ndefaults = pick(ndefaults, MAXA + 1)
        assume(ndefaults <= argcount)
        extra_locals = pick(extra_locals, 2)
        has_va = bool(pick(has_va, 2))
        has_kw = bool(pick(has_kw, 2))
        # a method whose implied self is collected by *args (def m(*args)) has no positional parameter to strip;
        # without *args such a method cannot be called at all
        assume(imlevel <= argcount or has_va)
        total = argcount + kwonly + (1 if has_va else 0) + (1 if has_kw else 0) + extra_locals
        code = _Code()
        code.co_argcount = argcount
        code.co_kwonlyargcount = kwonly
        code.co_posonlyargcount = 0
        code.co_flags = (CO_VARARGS if has_va else 0) | (CO_VARKEYWORDS if has_kw else 0)
        code.co_varnames = POOL[:total]
        f = _Func()
        f.__name__ = 'f'
        f.__doc__ = None
        f.__code__ = code
        f.__defaults__ = tuple(range(100, 100 + ndefaults)) or None
        f.__dict__['tag'] = 'v'
        m = fromFunction(f, imlevel=imlevel)
        info = m.getSignatureInfo()
        strip = min(imlevel, argcount)
        na = argcount - strip
        # Python semantic: defaults belong to the last ndefaults positionals; if
        # the stripped self had a default, that default is dropped with it.
        nd = min(ndefaults, na)
        exp_pos = POOL[strip:argcount]
        exp_req = exp_pos[:na - nd]
        exp_opt = dict(zip(exp_pos[na - nd:], tuple(range(100, 100 + ndefaults))[ndefaults - nd:]))
        exp_va = POOL[argcount + kwonly] if has_va else None
        exp_kw = POOL[argcount + kwonly + (1 if has_va else 0)] if has_kw else None
        key = (int(argcount), int(kwonly), bool(has_va), bool(has_kw), int(ndefaults),
               int(imlevel), int(extra_locals))
        reached(key, dict(zip(('argcount', 'kwonly', 'va', 'kw', 'ndefaults', 'imlevel', 'locals'), key)))
        for what, got, exp in (('positional', tuple(info['positional']), exp_pos),
                               ('required', tuple(info['required']), exp_req),
                               ('optional', dict(info['optional']), exp_opt),
                               ('varargs', info['varargs'], exp_va),
                               ('kwargs', info['kwargs'], exp_kw)):
            if got != exp:
                raise Violation('fromFunction %s: %s=%r expected %r' % (key, what, got, exp),
                                signature=_classify(key[1], key[2], key[3], what))
        if m.getTaggedValue('tag') != 'v':
            raise Violation('function attribute did not become a tagged value', signature='C18:tagged')
    return h


# ---- E tier: real functions built with exec --------------------------------

DEFAULT_KINDS = ['%d', 'None', "'s%d'", '()', '(%d,)', "(%d, 's')", '[%d]']


def _dflt(dk, i):
    t = DEFAULT_KINDS[dk]
    return t % i if '%' in t else t


def _build(npos_only, nreq, nopt, va, nkwreq, nkwopt, kw, dk=0):
    """Source of a def with the given shape.  Returns (src, names)."""
    parts = []
    i = 0
    names = []
    pos = []
    for _ in range(nreq):
        pos.append('a%d' % i); i += 1
    for _ in range(nopt):
        pos.append('a%d=%s' % (i, _dflt(dk, 10 + i))); i += 1
    if npos_only:
        pos.insert(npos_only, '/')
    parts += pos
    if va:
        parts.append('*va')
    elif nkwreq + nkwopt:
        parts.append('*')
    for j in range(nkwreq):
        parts.append('k%d' % j)
    for j in range(nkwopt):
        parts.append('ko%d=%s' % (j, _dflt(dk, 20 + j)))
    if kw:
        parts.append('**kws')
    return 'def f(%s):\n    loc = 1\n    return loc\n' % ', '.join(parts)


def _expected(fn, strip):
    """Oracle: inspect.signature."""
    sig = inspect.signature(fn)
    P = inspect.Parameter
    pos = [p for p in sig.parameters.values() if p.kind in (P.POSITIONAL_ONLY, P.POSITIONAL_OR_KEYWORD)]
    pos = pos[strip:]
    positional = tuple(p.name for p in pos)
    required = tuple(p.name for p in pos if p.default is P.empty)
    optional = {p.name: p.default for p in pos if p.default is not P.empty}
    va = [p.name for p in sig.parameters.values() if p.kind == P.VAR_POSITIONAL]
    kw = [p.name for p in sig.parameters.values() if p.kind == P.VAR_KEYWORD]
    return dict(positional=positional, required=required, optional=optional,
                varargs=va[0] if va else None, kwargs=kw[0] if kw else None)


def run_exec_case(case):
    from zope.interface.interface import fromFunction, fromMethod
    (npos_only, nreq, nopt, va, nkwreq, nkwopt, kw, mode, dk) = case
    src = _build(npos_only, nreq, nopt, va, nkwreq, nkwopt, kw, dk)
    ns = {}
    exec(src, ns)
    f = ns['f']
    f.flavour = 'x'
    nk = nkwreq + nkwopt
    if mode == 0:
        m = fromFunction(f)
        exp = _expected(f, 0)
    elif mode == 1:  # imlevel=1 on a function whose first positional is "self"
        m = fromFunction(f, imlevel=1)
        exp = _expected(f, 1)
    elif mode == 2:  # bound method
        class K:
            pass
        K.f = f
        m = fromMethod(K().f)
        exp = _expected(K().f, 0)
    else:  # unbound function given to fromMethod
        m = fromMethod(f)
        exp = _expected(f, 1)
    info = m.getSignatureInfo()
    got = dict(positional=tuple(info['positional']), required=tuple(info['required']),
               optional=dict(info['optional']), varargs=info['varargs'], kwargs=info['kwargs'])
    reached(case, dict(src=src.splitlines()[0], mode=mode))
    for what in ('positional', 'required', 'optional', 'varargs', 'kwargs'):
        if got[what] != exp[what]:
            raise Violation('%s mode=%d: %s=%r, inspect.signature says %r' % (
                src.splitlines()[0], mode, what, got[what], exp[what]),
                signature=_classify(nk, va, kw, what))
    # getSignatureString renders exactly that signature: re-parse it
    try:
        s = m.getSignatureString()
    except Exception as e:
        raise Violation('%s mode=%d: getSignatureString raised %s: %s' % (src.splitlines()[0], mode, type(e).__name__, e),
                        signature=_classify(nk, va, kw, 'sigstring'))
    ns2 = {}
    exec('def g%s: pass' % s, ns2)
    exp2 = _expected(ns2['g'], 0)
    if any(exp2[w] != exp[w] for w in ('positional', 'required', 'optional', 'varargs', 'kwargs')):
        raise Violation('getSignatureString %r does not render %r' % (s, exp),
                        signature=_classify(nk, va, kw, 'sigstring'))
    if m.getTaggedValue('flavour') != 'x':
        raise Violation('function attribute not a tagged value', signature='C18:tagged')
    # a second function object from the same ``def`` (same code object) with other defaults / attributes, described
    # after the first one: a description belongs to the function, not to its code object
    if nopt and mode in (0, 1) and dk == 0:
        import types
        f2 = types.FunctionType(f.__code__, f.__globals__, f.__name__, tuple(d + 500 for d in f.__defaults__), f.__closure__)
        f2.__kwdefaults__ = dict(f.__kwdefaults__) if f.__kwdefaults__ else None
        f2.flavour = 'y'
        m2 = fromFunction(f2, imlevel=mode)
        exp3 = _expected(f2, mode)
        got3 = dict(m2.getSignatureInfo()['optional'])
        if got3 != exp3['optional'] or m2.getTaggedValue('flavour') != 'y':
            raise Violation('%s: a second function sharing the code object (defaults %r) is described with optional=%r, '
                            'inspect.signature says %r' % (src.splitlines()[0], f2.__defaults__, got3, exp3['optional']),
                            signature='C18:shared-code-object')


def make_e_exec(params, part, nparts):
    MAXREQ = params.get('max_req', 2)
    MAXOPT = params.get('max_opt', 2)
    MAXKW = params.get('max_kwonly', 1)

    def h(posonly: int, nreq: int, nopt: int, va: int, nkwreq: int, nkwopt: int, kw: int, mode: int, dk: int):
        c_mode = pick(mode, 4)
        c_nreq = pick(nreq, MAXREQ + 1)
        assume((c_mode * (MAXREQ + 1) + c_nreq) % nparts == part)
        c_nopt = pick(nopt, MAXOPT + 1)
        assume(not (c_mode in (1, 2, 3) and c_nreq + c_nopt == 0))  # needs a self
        c_po = pick(posonly, 3)
        assume(c_po <= c_nreq + c_nopt)
        case = (c_po, c_nreq, c_nopt, pick(va, 2), pick(nkwreq, MAXKW + 1),
                pick(nkwopt, MAXKW + 1), pick(kw, 2), c_mode, 0)
        if c_nopt + case[5]:
            case = case[:8] + (pick(dk, len(DEFAULT_KINDS)),)      # default values: int, None, str, (), 1-tuple, 2-tuple, list
        native(run_exec_case, case)
    return h


def make_e_abc(params, part, nparts):
    """ABCInterfaceClass builds its methods with fromFunction and strips self."""
    def h(nreq: int, nopt: int, va: int, nk: int, kw: int):
        import abc
        from zope.interface.common import ABCInterfaceClass, ABCInterface
        case = (pick(nreq, 3), pick(nopt, 3), pick(va, 2), pick(nk, 2), pick(kw, 2))
        src = _build(0, case[0] + 1, case[1], case[2], case[3], 0, case[4]).replace('def f(a0', 'def meth(a0')
        ns = {}
        exec(src, ns)
        A = abc.ABCMeta('A', (object,), {'meth': abc.abstractmethod(ns['meth'])})
        # the interface body may define methods of its own next to the ones taken from the ABC: those have no self to strip
        exec('def own(first, second=2, *rest, **opts): pass\ndef bare(): pass\n', ns)
        I = ABCInterfaceClass('IA', (ABCInterface,), {'abc': A, 'own': ns['own'], 'bare': ns['bare']})
        for nm in ('own', 'bare'):
            info_o = I[nm].getSignatureInfo()
            exp_o = _expected(ns[nm], 0)
            for what in ('positional', 'required', 'optional', 'varargs', 'kwargs'):
                got = info_o[what]
                got = tuple(got) if what in ('positional', 'required') else got
                if got != exp_o[what]:
                    raise Violation('ABC-derived interface, method %s defined in the interface body: %s=%r expected %r' % (nm, what, got, exp_o[what]),
                                    signature='C18:abc:body-method')
        m = I['meth']
        exp = _expected(ns['meth'], 1)
        reached(case, dict(src=src.splitlines()[0]))
        info = m.getSignatureInfo()
        for what in ('positional', 'required', 'optional', 'varargs', 'kwargs'):
            got = info[what]
            got = tuple(got) if what in ('positional', 'required') else got
            if got != exp[what]:
                raise Violation('ABC %s: %s=%r expected %r' % (src.splitlines()[0], what, got, exp[what]),
                                signature=_classify(case[3], case[2], case[4], what))
    return h


_ENC = ['zope.interface.interface:fromFunction', 'zope.interface.interface:fromMethod',
        'zope.interface.interface:Method.getSignatureInfo',
        'zope.interface.interface:Method.getSignatureString']

HARNESSES = [
    Harness('s_layout', make_s_layout, kind='E', impls=('py',),
            tiers=dict(quick=dict(budget_s=60, parts=5, params=dict(max_args=4, max_kwonly=3)),
                       thorough=dict(budget_s=600, parts=9, params=dict(max_args=8, max_kwonly=3))),
            encoded=_ENC,
            bounds='co_argcount<=4 (thorough 8), co_kwonlyargcount<=3, *args/**kw flags, '
                   'len(__defaults__)<=argcount, imlevel in {0,1}, 0-1 extra locals (solver-enumerated counters)',
            outside='more parameters than the bound; functions whose code object violates the CPython layout',
            oracle='positions computed from the documented co_varnames layout',
            stubs=['duck-typed function/code objects with the attributes fromFunction reads'],
            assumptions=['co_varnames layout: positional (incl. positional-only), keyword-only, *name, **name, locals '
                         '(validated against real code objects by e_exec, whose oracle is inspect.signature)']),
    Harness('e_exec', make_e_exec, kind='E', impls=('py',),
            tiers=dict(quick=dict(budget_s=60, parts=12, params=dict(max_req=2, max_opt=2, max_kwonly=1)),
                       thorough=dict(budget_s=600, parts=16, params=dict(max_req=3, max_opt=2, max_kwonly=2))),
            encoded=_ENC,
            bounds='real def statements: required<=2(3), defaulted<=2, positional-only split<=2, '
                   'keyword-only required/defaulted<=1(2), *args, **kw; default values of 7 kinds (int, None, str, (), 1-tuple, 2-tuple, list); '
                   'fromFunction, imlevel=1, bound method, fromMethod(function)',
            outside='builtins / C functions; parameter annotations',
            oracle='inspect.signature; getSignatureString re-parsed by exec and compared again'),
    Harness('e_abc', make_e_abc, kind='E', impls=('py',),
            tiers=dict(quick=dict(budget_s=30, parts=1), thorough=dict(budget_s=60, parts=1)),
            encoded=['zope.interface.common:ABCInterfaceClass'],
            bounds='abstract method with self + required<=2, defaulted<=2, *args, kw-only<=1, **kw',
            oracle='inspect.signature without self (positional, varargs, kwargs)'),
]

MANIFEST = {
    'engine': 'symx',
    'technique': 'symbolic execution (CrossHair engine + z3) of the real fromFunction/fromMethod: solver-enumerated '
                 'code-object layouts and exec-built real signatures, oracle inspect.signature',
    'text': 'Bounded-exhaustive: z3 exhausts the path tree of the harness, i.e. every code-object layout / every real def '
            'signature inside the stated bounds was run through the real fromFunction and compared with inspect.signature. '
            'Signature space is a small product of counters, so exhaustive bounded coverage is the right level.',
    'note': 'Trusted: CPython inspect.signature as oracle; CrossHair path-tree exhaustion; bounds in evidence.',
}
