"""C01 providedBy/implementedBy report exactly the declared and inherited interfaces.

E tier: every history (up to the length bound) of declaration calls, subclass / instance
creation and queries over a fixed class DAG with multiple inheritance and a fixed interface
DAG is run on the real code (both builds).  The oracle is a *non-deterministic* set model
written from the statement: a declaration that is redundant at the moment it is made MAY be
dropped (documented elision) - both outcomes are admitted, so the model tracks the set of
admissible abstract states and every observation (after `query` ops and at the end of the
history) must be consistent with at least one of them.
"""
import itertools

from vlib.harness import Harness
from vlib.symx import Violation, assume, native, pick, reached
from vlib import universe as U

# interfaces: IA, IB(IA), IC, ID(IB, IC)
ISHAPE = ((), (0,), (), (1, 2))
NI = 4
# classes: K0, K1(K0), K2(K0), K3(K1, K2), K4(K1, K0); slot 5 = S(K1) created by a 'newsub*' op
CBASES = {0: (), 1: (0,), 2: (0,), 3: (1, 2), 4: (1, 0), 5: (1,)}
NC = 6
SLOT_S = 5
# objects: index -> class index (or ('class', k) for a class used as an object)
OBJ_CLS = {0: 1, 1: 1, 2: 2, 3: 3, 4: 1, 5: ('class', 1), 6: 5, 7: 4}
NO = 8
OBJ_NAME = {0: 'a1=K1()', 1: 'a2=K1()', 2: 'b=K2()', 3: 'd=K3()', 4: 'e=K1() [created by newinst]',
            5: 'K1 (the class as an object)', 6: 's=S() [created by newsub]', 7: 'f=K4()'}
INAME = ['IA', 'IB', 'IC', 'ID']
CNAME = ['K0', 'K1', 'K2', 'K3', 'K4', 'S']

ICLOS = []
for i in range(NI):
    ICLOS.append(frozenset(U.ancestors(ISHAPE, i)))


def closure(s):
    out = set()
    for i in s:
        out |= ICLOS[i]
    return frozenset(out)


# ---------------------------------------------------------------------------
# abstract state: (declared: tuple of frozenset per class slot, inherit: tuple of bool,
#                  direct: tuple of frozenset per object slot, exists: frozenset of dynamic slots)
# ---------------------------------------------------------------------------

def init_state():
    return (tuple(frozenset() for _ in range(NC)), (True,) * NC, tuple(frozenset() for _ in range(NO)))


def implements(st, c, memo=None):
    declared, inherit, _ = st
    out = set(closure(declared[c]))
    if inherit[c]:
        for b in CBASES[c]:
            out |= implements(st, b)
    return frozenset(out)


def cls_implements_of_obj(st, o):
    k = OBJ_CLS[o]
    if isinstance(k, tuple):
        return frozenset()       # the metaclass `type` implements none of the universe
    return implements(st, k)


def provided(st, o):
    return closure(st[2][o]) | cls_implements_of_obj(st, o)


def _elide_choices(wanted, implied):
    """All admissible outcomes of declaring `wanted` when `implied` is already implied:
    each redundant one may be kept or dropped."""
    sure = [i for i in wanted if i not in implied]
    maybe = [i for i in wanted if i in implied]
    for r in range(len(maybe) + 1):
        for keep in itertools.combinations(maybe, r):
            yield frozenset(sure) | frozenset(keep)


def step(states, op):
    """Set of admissible successor states; for noLongerProvides returns dict state -> raises?"""
    kind = op[0]
    out = {}
    for st in states:
        declared, inherit, direct = st
        if kind in ('classImplements', 'classImplementsFirst', 'implementer'):
            c, i = op[1], op[2]
            imp = implements(st, c)
            for new in _elide_choices([i], imp):
                d2 = list(declared)
                d2[c] = declared[c] | new
                out[(tuple(d2), inherit, direct)] = None
        elif kind in ('classImplementsOnly', 'implementer_only'):
            c, i = op[1], op[2]
            d2 = list(declared)
            d2[c] = frozenset([i])
            h2 = list(inherit)
            h2[c] = False
            out[(tuple(d2), tuple(h2), direct)] = None
        elif kind in ('directlyProvides', 'alsoProvides', 'noLongerProvides', 'provider'):
            o = op[1]
            imp = cls_implements_of_obj(st, o)
            if kind in ('directlyProvides', 'provider'):
                wanted = list(op[2])
            elif kind == 'alsoProvides':
                wanted = sorted(direct[o] | {op[2]})
            else:
                wanted = sorted(d for d in direct[o] if op[2] not in ICLOS[d])
            for new in _elide_choices(wanted, imp):
                r2 = list(direct)
                r2[o] = new
                st2 = (declared, inherit, tuple(r2))
                raises = (kind == 'noLongerProvides') and (op[2] in provided(st2, o))
                out[st2] = raises
        else:
            out[st] = None
    return out


# ---------------------------------------------------------------------------
# real universe
# ---------------------------------------------------------------------------

class Universe:
    def __init__(self):
        self.I = U.build_ifaces(ISHAPE, prefix='I')
        K0 = type('K0', (object,), {})
        K1 = type('K1', (K0,), {})
        K2 = type('K2', (K0,), {})
        K3 = type('K3', (K1, K2), {})
        K4 = type('K4', (K1, K0), {})
        self.K = [K0, K1, K2, K3, K4, None]
        self.obj = [K1(), K1(), K2(), K3(), None, K1, None, K4()]

    def live_objs(self):
        return [o for o in range(NO) if self.obj[o] is not None]

    def live_classes(self):
        return [c for c in range(NC) if self.K[c] is not None]


def observe(u):
    from zope.interface import Interface, implementedBy, providedBy
    idx = {id(I): k for k, I in enumerate(u.I)}
    obs = {}
    for o in u.live_objs():
        ob = u.obj[o]
        flat = list(providedBy(ob).flattened())
        s = frozenset(idx[id(x)] for x in flat if id(x) in idx)
        if Interface not in flat:
            raise Violation('providedBy(%s).flattened() does not contain Interface' % OBJ_NAME[o], signature='C01:no-root')
        if len(set(map(id, flat))) != len(flat):
            raise Violation('providedBy(%s).flattened() lists an interface twice: %r' % (OBJ_NAME[o], flat), signature='C01:dup')
        byi = frozenset(k for k, I in enumerate(u.I) if I.providedBy(ob))
        via_spec = frozenset(k for k, I in enumerate(u.I) if providedBy(ob).isOrExtends(I))
        if byi != s or via_spec != s:
            raise Violation('%s: I.providedBy(ob) says %s, providedBy(ob).flattened() %s, providedBy(ob).isOrExtends %s' % (
                OBJ_NAME[o], _n(byi), _n(s), _n(via_spec)), signature='C01:accessors-disagree:object')
        obs[('o', o)] = s
    for c in u.live_classes():
        cls = u.K[c]
        flat = list(implementedBy(cls).flattened())
        s = frozenset(idx[id(x)] for x in flat if id(x) in idx)
        byi = frozenset(k for k, I in enumerate(u.I) if I.implementedBy(cls))
        if byi != s:
            raise Violation('%s: I.implementedBy(cls) says %s, implementedBy(cls).flattened() %s' % (CNAME[c], _n(byi), _n(s)),
                            signature='C01:accessors-disagree:class')
        obs[('c', c)] = s
    return obs


def _n(s):
    return '{' + ','.join(INAME[i] for i in sorted(s)) + '}'


def expected_obs(st, u):
    e = {}
    for o in u.live_objs():
        e[('o', o)] = provided(st, o)
    for c in u.live_classes():
        e[('c', c)] = implements(st, c)
    return e


def fmt_op(op):
    k = op[0]
    if k in ('classImplements', 'classImplementsFirst', 'classImplementsOnly'):
        return '%s(%s, %s)' % (k, CNAME[op[1]], INAME[op[2]])
    if k == 'directlyProvides':
        return 'directlyProvides(%s%s)' % (OBJ_NAME[op[1]].split('=')[0].split(' ')[0], ''.join(', ' + INAME[i] for i in op[2]))
    if k in ('alsoProvides', 'noLongerProvides'):
        return '%s(%s, %s)' % (k, OBJ_NAME[op[1]].split('=')[0].split(' ')[0], INAME[op[2]])
    if k == 'newsub':
        return {None: 'class S(K1)', 'impl': '@implementer(%s) class S(K1)', 'only': '@implementer_only(%s) class S(K1)',
                'prov': '@provider(%s) class S(K1)'}[op[1]] % (() if op[1] is None else (INAME[op[2]],)) + '; s=S()'
    if k == 'newinst':
        return 'e=K1()'
    return k


def apply_real(u, op):
    """Returns True if the call raised ValueError (noLongerProvides contract)."""
    from zope.interface import (alsoProvides, classImplements, classImplementsFirst, classImplementsOnly,
                                directlyProvides, implementer, implementer_only, noLongerProvides, provider)
    k = op[0]
    if k == 'classImplements':
        classImplements(u.K[op[1]], u.I[op[2]])
    elif k == 'classImplementsFirst':
        classImplementsFirst(u.K[op[1]], u.I[op[2]])
    elif k == 'classImplementsOnly':
        classImplementsOnly(u.K[op[1]], u.I[op[2]])
    elif k == 'directlyProvides':
        directlyProvides(u.obj[op[1]], *[u.I[i] for i in op[2]])
    elif k == 'alsoProvides':
        alsoProvides(u.obj[op[1]], u.I[op[2]])
    elif k == 'noLongerProvides':
        try:
            noLongerProvides(u.obj[op[1]], u.I[op[2]])
        except ValueError:
            return True
    elif k == 'newsub':
        S = type('S', (u.K[1],), {})
        if op[1] == 'impl':
            S = implementer(u.I[op[2]])(S)
        elif op[1] == 'only':
            S = implementer_only(u.I[op[2]])(S)
        elif op[1] == 'prov':
            S = provider(u.I[op[2]])(S)
        u.K[SLOT_S] = S
        u.obj[6] = S()
    elif k == 'newinst':
        u.obj[4] = u.K[1]()
    elif k == 'query':
        pass
    elif k == 'squery':
        # an earlier query *through super()*: for every live instance and every class of its MRO (it fills the per-class
        # cache of super specifications; what it answers is C19's business - here it is only part of the history)
        from zope.interface import providedBy
        for o in u.live_objs():
            ob = u.obj[o]
            if isinstance(ob, type):
                continue
            for C in type(ob).__mro__[:-1]:
                list(providedBy(super(C, ob)).flattened())
    else:
        raise ValueError(op)
    return False


def needs(op):
    """Dynamic slots an op refers to: ('K',4) / ('o',4) / ('o',6)."""
    k = op[0]
    if k in ('classImplements', 'classImplementsFirst', 'classImplementsOnly') and op[1] == SLOT_S:
        return 'S'
    if k in ('directlyProvides', 'alsoProvides', 'noLongerProvides'):
        if op[1] == 4:
            return 'e'
        if op[1] == 6:
            return 'S'
    return None


def valid_history(ops):
    have = set()
    for op in ops:
        n = needs(op)
        if n and n not in have:
            return False
        if op[0] == 'newsub':
            if 'S' in have:
                return False
            have.add('S')
        if op[0] == 'newinst':
            if 'e' in have:
                return False
            have.add('e')
    return True


def classify(ops, k):
    kinds = [o[0] for o in ops[:k + 1]]
    if 'classImplementsOnly' in kinds and any(x in kinds for x in ('directlyProvides', 'alsoProvides')):
        i_only = kinds.index('classImplementsOnly')
        if any(x in ('directlyProvides', 'alsoProvides') for x in kinds[:i_only]) and \
                any(x in ('directlyProvides', 'alsoProvides') for x in kinds[i_only + 1:]):
            return 'C01:stale-shared-provides-after-only'
    return 'C01:history:' + '/'.join(kinds)


def run_history(ops):
    u = Universe()
    states = {init_state(): None}
    hist = []
    for k, op in enumerate(ops):
        raised = apply_real(u, op)
        hist.append(fmt_op(op))
        if op[0] == 'newsub' and op[1] is not None:
            # @provider declares on the class S as an object, which is not in the observed pool
            mop = {'impl': ('implementer', SLOT_S, op[2]), 'only': ('implementer_only', SLOT_S, op[2]),
                   'prov': ('query',)}[op[1]]
            states = step(states, mop)
        elif op[0] == 'squery':
            states = step(states, ('query',))
        else:
            states = step(states, op)
        if op[0] == 'noLongerProvides':
            states = {s: None for s, r in states.items() if r == raised}
            if not states:
                raise Violation('history [%s]: noLongerProvides %s ValueError, but no admissible state agrees' % (
                    '; '.join(hist), 'raised' if raised else 'did not raise'), signature='C01:noLongerProvides-valueerror')
        if op[0] in ('query', 'squery') or k == len(ops) - 1:
            obs = observe(u)
            ok = {}
            worst = None
            for st in states:
                e = expected_obs(st, u)
                bad = [key for key in e if e[key] != obs[key]]
                if not bad:
                    ok[st] = None
                elif worst is None or len(bad) < len(worst[0]):
                    worst = (bad, e)
            if not ok:
                bad, e = worst
                key = bad[0]
                what = OBJ_NAME[key[1]] if key[0] == 'o' else CNAME[key[1]]
                raise Violation('history [%s]: %s %s reports %s, the statement admits %s%s' % (
                    '; '.join(hist), 'providedBy' if key[0] == 'o' else 'implementedBy', what, _n(obs[key]), _n(e[key]),
                    '' if len(states) == 1 else ' (closest of %d admissible states)' % len(states)),
                    signature=classify(ops, k))
            states = ok


# ---------------------------------------------------------------------------
# alphabets
# ---------------------------------------------------------------------------

def alphabet(full):
    ops = []
    if full is True:
        for kind in ('classImplements', 'classImplementsOnly', 'classImplementsFirst'):
            for c in range(NC):
                for i in range(NI):
                    ops.append((kind, c, i))
        for o in range(NO):
            ops.append(('directlyProvides', o, ()))
            for i in range(NI):
                ops.append(('directlyProvides', o, (i,)))
                ops.append(('alsoProvides', o, i))
                ops.append(('noLongerProvides', o, i))
        ops.append(('directlyProvides', 0, (1, 2)))
        for v in (None, 'impl', 'only', 'prov'):
            ops.append(('newsub', v, 2))
        ops += [('newinst',), ('query',)]
    elif full == 'narrowing':
        ops += [('classImplements', 0, 1), ('classImplements', 1, 0), ('classImplementsOnly', 0, 2),
                ('classImplementsOnly', 1, 2), ('classImplementsOnly', 1, 0),
                ('directlyProvides', 0, (0,)), ('directlyProvides', 1, (0,)), ('directlyProvides', 0, (1,)),
                ('alsoProvides', 0, 1), ('alsoProvides', 1, 0), ('noLongerProvides', 0, 0), ('directlyProvides', 0, ()),
                ('directlyProvides', 0, (0, 2)), ('directlyProvides', 1, (0, 2)), ('query',), ('squery',)]
    else:
        ops += [('classImplements', 0, 0), ('classImplements', 0, 1), ('classImplements', 1, 0), ('classImplements', 1, 2),
                ('classImplements', 4, 2), ('classImplementsOnly', 0, 2), ('classImplementsOnly', 1, 0),
                ('classImplementsOnly', 1, 2), ('classImplementsFirst', 1, 1), ('classImplements', SLOT_S, 2),
                ('directlyProvides', 0, (0,)), ('directlyProvides', 0, (1,)), ('directlyProvides', 1, (0,)),
                ('directlyProvides', 3, (2,)), ('directlyProvides', 0, ()), ('directlyProvides', 5, (2,)),
                ('alsoProvides', 0, 0), ('alsoProvides', 0, 1), ('alsoProvides', 0, 2), ('alsoProvides', 3, 1),
                ('noLongerProvides', 0, 0), ('noLongerProvides', 0, 1), ('directlyProvides', 4, (0,)),
                ('newsub', None, 2), ('newsub', 'only', 2), ('newinst',), ('query',), ('squery',)]
    return ops


def make_e(params, part, nparts):
    alpha = alphabet(params.get('full', False))
    NA = len(alpha)
    L = params['L']

    def h(n: int, o1: int, o2: int, o3: int, o4: int, o5: int):
        c1 = pick(o1, NA)
        assume(c1 % nparts == part)
        ln = pick(n, L) + 1
        idx = [c1] + [pick(o, NA) for o in (o2, o3, o4, o5)[:ln - 1]]
        ops = tuple(alpha[i] for i in idx)
        assume(valid_history(ops))
        reached(tuple(idx), dict(history=[fmt_op(o) for o in ops]))
        native(run_history, ops)
    return h


_ENC = ['zope.interface.declarations:implementedBy', 'zope.interface.declarations:classImplements',
        'zope.interface.declarations:classImplementsOnly', 'zope.interface.declarations:classImplementsFirst',
        'zope.interface.declarations:_classImplements_ordered', 'zope.interface.declarations:directlyProvides',
        'zope.interface.declarations:alsoProvides', 'zope.interface.declarations:noLongerProvides',
        'zope.interface.declarations:Provides', 'zope.interface.declarations:Declaration._add_interfaces_to_cls',
        'zope.interface.declarations:ClassProvides.__init__', 'zope.interface.declarations:providedBy',
        'zope.interface.declarations:getObjectSpecification', 'zope.interface.declarations:ObjectSpecificationDescriptor.__get__',
        'zope.interface.declarations:ClassProvidesBase.__get__', 'zope.interface.declarations:implementer.__call__',
        'zope.interface.declarations:implementer_only.__call__', 'zope.interface.declarations:provider.__call__',
        'zope.interface.interface:Specification.changed', 'zope.interface.interface:InterfaceBase.providedBy',
        'zope.interface.interface:InterfaceBase.implementedBy']

_B = ('classes K0, K1(K0), K2(K0), K3(K1,K2), dynamically created S(K1) (plain / @implementer / @implementer_only / @provider); '
      'interfaces IA, IB(IA), IC, ID(IB,IC); objects: two instances of K1, one of K2, one of K3, a late instance of K1, the '
      'class K1 used as an object, an instance of S; ')


# ---------------------------------------------------------------------------------------------------------------
# e_metaclass: a class whose metaclass has declarations of its own.  As an object the class provides what its metaclass
# implements plus its own direct declarations; its instances provide what the class implements; a subclass object does
# not inherit the direct declarations of its base class object.
MC_OPS = ['query instance of C', 'query C', 'classImplements(C, IItem)', 'classImplementsOnly(C, IItem)', 'directlyProvides(C, IOther)',
          'alsoProvides(C, IOther)', 'noLongerProvides(C, IOther)', 'classImplements(Meta, IMore)', 'directlyProvides(C)',
          'alsoProvides(D, IOther)', 'create C2 = Meta(...) late and query its instance']


def run_metaclass(ops):
    from zope.interface import (Interface, alsoProvides, classImplements, classImplementsOnly, directlyProvides, implementer,
                                noLongerProvides, providedBy)
    from zope.interface.interface import InterfaceClass
    mod = U.fresh_module_name()
    IKind, IItem, IOther, IMore = [InterfaceClass(n, (Interface,), __module__=mod) for n in ('IKind', 'IItem', 'IOther', 'IMore')]
    ALL = (IKind, IItem, IOther, IMore)

    @implementer(IKind)
    class Meta(type):
        pass
    C = Meta('C', (object,), {})
    D = Meta('D', (C,), {})
    state = dict(meta={IKind}, impl_c=set(), direct_c=set(), direct_d=set())
    extra = []
    hist = []
    for op in ops:
        hist.append(MC_OPS[op])
        if op == 0:
            IItem.providedBy(C())
        elif op == 1:
            IKind.providedBy(C)
        elif op == 2:
            classImplements(C, IItem)
            state['impl_c'].add(IItem)
        elif op == 3:
            classImplementsOnly(C, IItem)
            state['impl_c'] = {IItem}
        elif op == 4:
            directlyProvides(C, IOther)
            state['direct_c'] = {IOther}
        elif op == 5:
            alsoProvides(C, IOther)
            state['direct_c'].add(IOther)
        elif op == 6:
            if IOther not in state['direct_c']:
                return False
            noLongerProvides(C, IOther)
            state['direct_c'].discard(IOther)
        elif op == 7:
            classImplements(Meta, IMore)
            state['meta'].add(IMore)
        elif op == 8:
            directlyProvides(C)
            state['direct_c'] = set()
        elif op == 9:
            alsoProvides(D, IOther)
            state['direct_d'].add(IOther)
        else:
            C2 = Meta('C2', (object,), {})
            IItem.providedBy(C2())
            extra.append(C2)
        exp = [('the class object C', C, state['meta'] | state['direct_c']),
               ('the subclass object D', D, state['meta'] | state['direct_d']),
               ('an instance of C', C(), set(state['impl_c'])),
               ('an instance of D', D(), set(state['impl_c']))]
        for c2 in extra:
            exp.append(('the late class object C2', c2, set(state['meta'])))
        for label, ob, want in exp:
            flat = set(x for x in providedBy(ob).flattened() if x in ALL)
            byi = set(I for I in ALL if I.providedBy(ob))
            if flat != want or byi != want:
                raise Violation('metaclass Meta implements IKind; history [%s]: %s provides %s (I.providedBy: %s), the declarations say %s' % (
                    '; '.join(hist), label, sorted(x.__name__ for x in flat), sorted(x.__name__ for x in byi),
                    sorted(x.__name__ for x in want)), signature='C01:metaclass')
    return True


def make_e_metaclass(params, part, nparts):
    L = params.get('L', 3)
    NO_ = len(MC_OPS)

    def h(n: int, o1: int, o2: int, o3: int, o4: int):
        c1 = pick(o1, NO_)
        assume(c1 % nparts == part)
        ln = pick(n, L) + 1
        ops = (c1,) + tuple(pick(o, NO_) for o in (o2, o3, o4)[:ln - 1])
        ok = native(run_metaclass, ops)
        assume(ok)
        reached(ops, dict(history=[MC_OPS[o] for o in ops]))
    return h

HARNESSES = [
    Harness('e_decl_reduced', make_e, kind='E', impls=('py', 'c'),
            tiers=dict(quick=dict(budget_s=150, parts=16, params=dict(L=3)),
                       thorough=dict(budget_s=3000, parts=16, params=dict(L=4), impls=('py',))),
            encoded=_ENC,
            bounds=_B + 'every history of <=3 (thorough 4, pure-Python build) ops from a 27-op alphabet (class declarations on K0/K1/K4/S, '
                        'instance declarations on both K1 instances, the K3 instance, a late instance, the class object, creation of S / a late '
                        'instance, query-all)',
            outside='histories longer than the bound; classes whose __bases__ are reassigned; security proxies; Interface itself as a declared interface',
            oracle='non-deterministic set model from the statement (declared/inherit per class, direct per object; a declaration implied at the '
                   'moment it is made may be kept or dropped); every observation must be consistent with one admissible state'),
    Harness('e_decl_narrowing', make_e, kind='E', impls=('py', 'c'),
            tiers=dict(quick=dict(budget_s=170, parts=16, params=dict(L=4, full='narrowing'), impls=('py',)),
                       thorough=dict(budget_s=2400, parts=16, params=dict(L=5, full='narrowing'))),
            encoded=_ENC,
            bounds=_B + 'every history of <=4 (thorough 5, both builds) ops from a 15-op alphabet that interleaves instance declarations on two '
                        'instances of one class with widening and narrowing (classImplementsOnly) of that class and of its base',
            oracle='as e_decl_reduced'),
    Harness('e_decl_full', make_e, kind='E', impls=('py', 'c'),
            tiers=dict(quick=dict(budget_s=150, parts=16, params=dict(L=2, full=True), impls=('py',)),
                       thorough=dict(budget_s=3000, parts=16, params=dict(L=2, full=True))),
            encoded=_ENC,
            bounds=_B + 'every history of <=2 ops from the full 183-op alphabet (3 class-declaration forms x 6 classes x 4 interfaces, 3 '
                        'instance-declaration forms x 8 objects x 4 interfaces + clearing, 4 ways of creating S, late instance, query); '
                        'quick: pure-Python build, thorough: both builds',
            oracle='as e_decl_reduced'),
    Harness('e_metaclass', make_e_metaclass, kind='E', impls=('py', 'c'),
            tiers=dict(quick=dict(budget_s=90, parts=11, params=dict(L=3)), thorough=dict(budget_s=900, parts=11, params=dict(L=4))),
            encoded=_ENC,
            bounds='a class C (and subclass D) whose metaclass Meta(type) itself implements an interface; every history of <=3 (thorough 4) ops '
                   'from 11: queries of an instance / of the class object, classImplements / classImplementsOnly on C, directlyProvides / '
                   'alsoProvides / noLongerProvides / clearing on the class object, a declaration on the metaclass, a declaration on the '
                   'subclass object, a class created late; after every op the class objects and instances are observed',
            outside='metaclass hierarchies deeper than one level',
            oracle='set model: a class object provides implements(metaclass) + its own direct declarations (not those of a base class '
                   'object); an instance provides implements(class)'),
]

ASSUMPTIONS = ['class __bases__ are never reassigned (documented as unsupported)',
               'Interface itself is not used as an operand of declaration calls (documented special case)']

MANIFEST = {
    'engine': 'symx',
    'technique': 'symbolic execution (CrossHair engine + z3) over solver-enumerated declaration/creation/query histories on real classes '
                 'and objects, pure-Python and C builds; oracle: non-deterministic set model written from the statement',
    'text': 'Bounded-exhaustive: every history up to the length bound of declaration calls, subclass/instance creation and queries over a '
            'class DAG with multiple inheritance is executed on the real code; every query result for every object, class and interface '
            'must be admitted by the set model. Stale shared declarations and cache effects depend on the order of a few calls, which '
            'small-scope exhaustion covers.',
    'note': 'Trusted: the 60-line set model; path-tree exhaustion by z3. Length bounds in evidence.',
}
