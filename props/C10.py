"""C10 The C accelerator is observationally equivalent to the Python reference.

Every path of these harnesses is one solver-enumerated API program.  The worker process runs it on the
pure-Python build; a sibling process (vlib/traceserver.py) runs the same program on a fresh build of the
current C source; the two traces (results, exception types, subsequent query results) must be identical.
The other properties' E harnesses already run on both builds against their oracles; the programs here are
the ones for which nobody wrote an expectation: odd `__provides__` values, comparison with foreign objects,
lookup bases driven directly with odd arguments, error paths, resolution-order sequences.
"""
import atexit
import json
import os
import subprocess
import sys

from vlib.harness import Harness
from vlib.symx import Violation, assume, native, pick, reached
from vlib import traceprog as TP

_SIB = {}


def _sibling():
    p = _SIB.get('p')
    if p is not None and p.poll() is None:
        return p
    root = os.path.dirname(os.path.dirname(os.path.abspath(__file__)))
    env = dict(os.environ)
    env['PYTHONPATH'] = root
    env.pop('PURE_PYTHON', None)
    p = subprocess.Popen([sys.executable, '-m', 'vlib.traceserver', 'c'], cwd=root, env=env, stdin=subprocess.PIPE,
                         stdout=subprocess.PIPE, stderr=subprocess.DEVNULL, text=True, bufsize=1)
    hello = p.stdout.readline()
    if 'ready' not in hello:
        raise RuntimeError('trace server did not start: %r' % hello)
    _SIB['p'] = p
    atexit.register(lambda: (p.stdin.close(), p.terminate()))
    return p


def differential(family, program):
    local = TP.execute(family, program)
    if local is None:
        return False
    local = json.loads(json.dumps(dict(trace=local), default=repr))
    p = _sibling()
    p.stdin.write(json.dumps(dict(family=family, program=program)) + '\n')
    p.stdin.flush()
    line = p.stdout.readline()
    if not line:
        _SIB.pop('p', None)
        raise Violation('family %s program %r: the process running the C build died (crash in the accelerator?)' % (family, program),
                        signature='C10:%s:c-process-died' % family)
    remote = json.loads(line)
    if 'error' in remote:
        raise Violation('family %s program %r: C build raised out of the program: %s' % (family, program, remote['error']),
                        signature='C10:%s:error' % family)
    diffs = TP.all_differences(local['trace'], remote['trace'])
    known = None
    for (path, a, b) in diffs:
        sig = classify(family, program, path, a, b)
        msg = 'family %s program %s: traces differ at %s: PURE_PYTHON gives %r, C gives %r' % (family, describe(family, program), path, a, b)
        if sig is None:
            raise Violation(msg, signature='C10:%s:diverge' % family)
        if known is None:
            known = Violation(msg, signature=sig)
    if known is not None:
        raise known      # only listed divergences on this program (the runner decides whether the signature is listed)
    return True


def classify(family, program, path, py, c):
    """Narrow classes of divergence on exotic operands that are recorded as known findings; everything else is unclassified."""
    if family == 'cmp':
        if 7 in (program[0], program[3]) and py == 'raise:TypeError' and c in ('True', 'False') and path.startswith('['):
            i = int(path[1:path.index(']')])
            if 24 <= i < 36:
                return 'C10:cmp:eq-ne-with-foreign-object-whose-name-is-not-a-string'
    if family == 'odd':
        if program[3] == 3 and py == 'raise:AttributeError' and c == 'raise:TypeError':
            return 'C10:odd:providedBy-result-is-not-a-specification:exception-type'
    if family == 'lb':
        if program[1] == 4:
            return 'C10:lb:unhashable-required-key-reaches-uncached-lookup'
    return None


def describe(family, program):
    try:
        if family == 'decl':
            from props import C01
            alpha = C01.alphabet(True if program[0] else False)
            return '[' + '; '.join(C01.fmt_op(alpha[i]) for i in program[1:]) + ']'
        if family == 'reg':
            from props import C05
            from vlib import regprog as RP
            alpha = C05.alphabet(2)
            return '%s [%s]' % ('AdapterRegistry' if program[0] == 0 else 'VerifyingAdapterRegistry', RP.fmt([alpha[i] for i in program[1:]]))
        if family == 'cmp':
            k = ['InterfaceClass', 'Implements', 'None', 'foreign(name,module)', 'foreign(name)', 'tuple', 'Interface', 'foreign(non-str)',
                 'InterfaceClass subclass', 'handle with own __eq__/__ne__']
            return '%s(%r,%r) vs %s(%r,%r)' % (k[program[0]], TP.CMP_STR[program[1]], TP.CMP_STR[program[2]], k[program[3]],
                                              TP.CMP_STR[program[4]], TP.CMP_STR[program[5]])
        if family == 'odd':
            return '__providedBy__=%s __provides__=%s __implemented__=%s class-kind=%d call=%s' % (
                TP.ODD_ATTR[program[0]], TP.ODD_ATTR[program[1]], TP.ODD_ATTR[program[2]], program[3], TP.ODD_FUNCS[program[4]])
        if family == 'lb':
            return '%s required=%s provided=%s name=%r uncached-answer=%s calls=%s,%s,%s' % (
                ['LookupBase', 'VerifyingBase'][program[0]], TP.LB_REQ[program[1]], TP.LB_PROV[program[2]], TP.LB_NAME[program[3]],
                TP.LB_ANS[program[4]], TP.LB_CALL[program[5]], TP.LB_CALL[program[6]], TP.LB_CALL[program[5]])
    except Exception:
        pass
    return repr(program)


def make_decl(params, part, nparts):
    from props import C01
    fullsel = 1 if params.get('full') else 0
    NA = len(C01.alphabet(bool(fullsel)))
    L = params['L']

    def h(n: int, o1: int, o2: int, o3: int):
        c1 = pick(o1, NA)
        assume(c1 % nparts == part)
        ln = pick(n, L) + 1
        idx = [c1] + [pick(o, NA) for o in (o2, o3)[:ln - 1]]
        prog = [fullsel] + idx
        ok = native(differential, 'decl', prog)
        assume(ok)
        reached(tuple(prog), dict(family='decl', program=describe('decl', prog)))
    return h


def make_reg(params, part, nparts):
    from props import C05
    NA = len(C05.alphabet(2))
    L = params['L']

    def h(fl: int, n: int, o1: int, o2: int, o3: int):
        c1 = pick(o1, NA)
        assume(c1 % nparts == part)
        ln = pick(n, L) + 1
        prog = [pick(fl, 2), c1] + [pick(o, NA) for o in (o2, o3)[:ln - 1]]
        reached(tuple(prog), dict(family='reg', program=describe('reg', prog)))
        native(differential, 'reg', prog)
    return h


def make_cmp(params, part, nparts):
    NS, NM = params.get('names', 4), params.get('mods', 3)

    def h(k1: int, i1: int, j1: int, k2: int, i2: int, j2: int):
        c1 = pick(k1, TP.NCMP_KINDS)
        c2 = pick(k2, TP.NCMP_KINDS)
        assume((c1 * TP.NCMP_KINDS + c2) % nparts == part)
        prog = [c1, pick(i1, NS), pick(j1, NM), c2, pick(i2, NS), pick(j2, NM)]
        reached(tuple(prog), dict(family='cmp', program=describe('cmp', prog)))
        native(differential, 'cmp', prog)
    return h


def make_odd(params, part, nparts):
    NAT = len(TP.ODD_ATTR)

    def h(pb: int, pv: int, im: int, ck: int, fn: int):
        c1 = pick(pb, NAT)
        c2 = pick(fn, len(TP.ODD_FUNCS))
        assume((c1 * len(TP.ODD_FUNCS) + c2) % nparts == part)
        prog = [c1, pick(pv, NAT), pick(im, NAT), pick(ck, 4), c2]
        reached(tuple(prog), dict(family='odd', program=describe('odd', prog)))
        native(differential, 'odd', prog)
    return h


def make_lb(params, part, nparts):
    NC = len(TP.LB_CALL)
    second = params.get('second', list(range(NC)))

    def h(base: int, req: int, prov: int, name: int, ans: int, c1: int, c2: int):
        a = pick(c1, NC)
        b = pick(req, len(TP.LB_REQ))
        assume((a * len(TP.LB_REQ) + b) % nparts == part)
        prog = [pick(base, 2), b, pick(prov, len(TP.LB_PROV)), pick(name, len(TP.LB_NAME)), pick(ans, len(TP.LB_ANS)), a,
                second[pick(c2, len(second))]]
        reached(tuple(prog), dict(family='lb', program=describe('lb', prog)))
        native(differential, 'lb', prog)
    return h


def make_call(params, part, nparts):
    from props import C14
    NH = params.get('max_hooks', 1)

    def h(conform: int, provided: int, nhooks: int, h0: int, h1: int, custom: int, alt: int, entry: int):
        c_conf = pick(conform, len(C14.CONFORM))
        c_cust = pick(custom, len(C14.CUSTOM))
        assume((c_conf * len(C14.CUSTOM) + c_cust) % nparts == part)
        n = pick(nhooks, NH + 1)
        hooks = [pick(x, len(C14.HOOK)) for x in (h0, h1)[:n]]
        prog = [c_conf, pick(provided, 2), hooks, c_cust, pick(alt, 3), pick(entry, 2)]
        assume(not (prog[5] == 1 and prog[4] != 0))
        reached((c_conf, prog[1], tuple(hooks), c_cust, prog[4], prog[5]), dict(family='call', program=repr(prog)))
        native(differential, 'call', prog)
    return h


_ENC = ['zope.interface._zope_interface_coptimizations:SpecificationBase', 'zope.interface._zope_interface_coptimizations:InterfaceBase',
        'zope.interface._zope_interface_coptimizations:ClassProvidesBase', 'zope.interface._zope_interface_coptimizations:ObjectSpecificationDescriptor',
        'zope.interface._zope_interface_coptimizations:implementedBy', 'zope.interface._zope_interface_coptimizations:providedBy',
        'zope.interface._zope_interface_coptimizations:getObjectSpecification', 'zope.interface._zope_interface_coptimizations:LookupBase',
        'zope.interface._zope_interface_coptimizations:VerifyingBase',
        'zope.interface.interface:SpecificationBasePy', 'zope.interface.interface:InterfaceBasePy', 'zope.interface.declarations:implementedBy',
        'zope.interface.declarations:providedBy', 'zope.interface.declarations:getObjectSpecification',
        'zope.interface.adapter:LookupBaseFallback', 'zope.interface.adapter:VerifyingBaseFallback', 'zope.interface._compat:_use_c_impl']

_OR = 'the trace of the same program on the other build (results as names/tags, exception type names, subsequent query results)'


def _h(name, make, quick, thorough, bounds, qb=150, tb=3000, parts=16):
    return Harness(name, make, kind='E', impls=('py',),
                   tiers=dict(quick=dict(budget_s=qb, parts=parts, params=quick), thorough=dict(budget_s=tb, parts=parts, params=thorough)),
                   encoded=_ENC, bounds=bounds, oracle=_OR, outside='programs outside the enumerated families and bounds; PyPy; free-threaded builds',
                   stubs=['sibling process running the C build (fresh compile of the current .c)'])


HARNESSES = [
    _h('d_decl', make_decl, dict(L=3), dict(L=2, full=True),
       'declaration programs: every history of <=3 calls from the 26-op alphabet of C01 (thorough: <=2 from the 183-op alphabet); trace = '
       'provided/implemented sets of every object and class plus the name sequence of every __sro__ after each step'),
    _h('d_reg', make_reg, dict(L=1), dict(L=2),
       'registry programs on a 2-registry chain of either flavour: every history of <=1 (thorough 2) mutations from 53 (registrations, '
       'subscriptions, registry/interface __bases__, declarations); trace = every entry point for every key (arity 0-2, defaults, objects) '
       'from both registries before and after each step'),
    _h('d_cmp', make_cmp, dict(names=4, mods=3), dict(names=7, mods=4),
       'comparison programs: ordered pairs of operands from {InterfaceClass, Implements, None, foreign objects with/without/with non-string '
       '__name__/__module__, tuple, Interface, InterfaceClass subclass, a handle with its own __eq__/__ne__ and no name} x names x modules (fresh string objects); all six operators through '
       'operator.* and the dunder, both directions, self, hash, sorted()', parts=9),
    _h('d_odd', make_odd, {}, {},
       'protocol programs: objects whose __providedBy__ / __provides__ / __implemented__ are absent, a specification, a declaration, None, a '
       'non-specification, raising AttributeError / ValueError, or another class\'s specification x 4 class kinds (plain, subclass of a '
       'declared class, slots, lying __class__) x 9 entry points (providedBy, I.providedBy, implementedBy, getObjectSpecification, ...), each twice'),
    _h('d_lb', make_lb, dict(second=[0, 1, 3, 5]), {},
       'lookup-base programs: LookupBase / VerifyingBase subclasses with overridden _uncached_* driven directly: required as tuple / list / '
       'generator / str / unhashable / non-iterable / empty, provided hashable / unhashable / None, name "" / "n" / 42 / None / bytes, uncached '
       'answer None / factory / falsy / raises, every ordered pair of 9 calls (quick: 9 x 4), first call repeated'),
    _h('d_call', make_call, dict(max_hooks=1), dict(max_hooks=2),
       'adaptation programs: the product of C14 with hook lists of length <=1 (thorough 2); trace = outcome and executed-step log', parts=13),
]
for _x in HARNESSES:
    _x.needs_c = True

MANIFEST = {
    'engine': 'symx',
    'technique': 'symbolic execution (CrossHair engine + z3) enumerating API programs of six families; each program is executed on the '
                 'pure-Python build and, in a sibling process, on a fresh build of the current C source; traces compared',
    'text': 'Bounded-exhaustive differential: every program of the six families within the stated bounds is run on both implementations '
            'and the complete traces (results, exception types at each point, subsequent behaviour) must be identical. Together with the '
            'both-build runs of the other properties\' harnesses this covers the public API families named in the statement.',
    'note': 'Trusted: trace normalisation (names/tags); "all programs" is approximated by six bounded program families (stated).',
}
