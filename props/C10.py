"""C10 The C accelerator is observationally equivalent to the Python reference.

Every path of these harnesses is one solver-enumerated API program.  The worker process runs it on the
pure-Python build; a sibling process (vlib/traceserver.py) runs the same program on a fresh build of the
current C source; the two traces (results, exception types, subsequent query results) must be identical.
The other properties' E harnesses already run on both builds against their oracles; the programs here are
the ones for which nobody wrote an expectation: odd `__provides__` values, comparison with foreign objects,
lookup bases driven directly with odd arguments, error paths, resolution-order sequences.
"""
import atexit
import json
import os
import subprocess
import sys

from vlib.harness import Harness
from vlib.symx import Violation, assume, native, pick, reached
from vlib import traceprog as TP

_SIB = {}


def _sibling(env0=None):
    p = _SIB.get('p')
    if p is not None and p.poll() is None:
        return p
    root = os.path.dirname(os.path.dirname(os.path.abspath(__file__)))
    env = dict(env0 or os.environ)
    env['PYTHONPATH'] = root
    env.pop('PURE_PYTHON', None)
    p = subprocess.Popen([sys.executable, '-m', 'vlib.traceserver', 'c'], cwd=root, env=env, stdin=subprocess.PIPE,
                         stdout=subprocess.PIPE, stderr=subprocess.DEVNULL, text=True, bufsize=1)
    hello = p.stdout.readline()
    if 'ready' not in hello:
        raise RuntimeError('trace server did not start: %r' % hello)
    _SIB['p'] = p
    atexit.register(lambda: (p.stdin.close(), p.terminate()))
    return p


def differential(family, program, env=None):
    local = TP.execute(family, program)
    if local is None:
        return False
    local = json.loads(json.dumps(dict(trace=local), default=repr))
    p = _sibling(env)
    p.stdin.write(json.dumps(dict(family=family, program=program)) + '\n')
    p.stdin.flush()
    line = p.stdout.readline()
    if not line:
        _SIB.pop('p', None)
        raise Violation('family %s program %r: the process running the C build died (crash in the accelerator?)' % (family, program),
                        signature='C10:%s:c-process-died' % family)
    remote = json.loads(line)
    if 'error' in remote:
        raise Violation('family %s program %r: C build raised out of the program: %s' % (family, program, remote['error']),
                        signature='C10:%s:error' % family)
    diffs = TP.all_differences(local['trace'], remote['trace'])
    known = None
    for (path, a, b) in diffs:
        sig = classify(family, program, path, a, b)
        msg = 'family %s program %s: traces differ at %s: PURE_PYTHON gives %r, C gives %r' % (family, describe(family, program), path, a, b)
        if sig is None:
            raise Violation(msg, signature='C10:%s:diverge' % family)
        if known is None:
            known = Violation(msg, signature=sig)
    if known is not None:
        raise known      # only listed divergences on this program (the runner decides whether the signature is listed)
    return True


def classify(family, program, path, py, c):
    """Narrow classes of divergence on exotic operands that are recorded as known findings; everything else is unclassified."""
    if family == 'cmp':
        if 7 in (program[0], program[3]) and py == 'raise:TypeError' and c in ('True', 'False') and path.startswith('['):
            i = int(path[1:path.index(']')])
            if 24 <= i < 36:
                return 'C10:cmp:eq-ne-with-foreign-object-whose-name-is-not-a-string'
    if family == 'odd':
        if program[3] == 3 and py == 'raise:AttributeError' and c == 'raise:TypeError':
            return 'C10:odd:providedBy-result-is-not-a-specification:exception-type'
    if family == 'lb':
        if program[1] == 4:
            return 'C10:lb:unhashable-required-key-reaches-uncached-lookup'
    if family == 'kw':
        # single-argument callables are METH_O in the accelerator: their one parameter is positional-only there, a keyword in Python
        if program[0] in TP.KW_POSITIONAL_ONLY_IN_C and program[1] == 0 and program[2] == 0 and (
                (path == '[0]' and c == 'raise:TypeError' and py == 'ok') or path == '[1]'):
            return 'C10:kw:single-argument-callables-are-positional-only-in-C'
    return None


def describe(family, program):
    try:
        if family == 'decl':
            from props import C01
            alpha = C01.alphabet(True if program[0] else False)
            return '[' + '; '.join(C01.fmt_op(alpha[i]) for i in program[1:]) + ']'
        if family == 'reg':
            from props import C05
            from vlib import regprog as RP
            alpha = C05.alphabet(2)
            return '%s [%s]' % ('AdapterRegistry' if program[0] == 0 else 'VerifyingAdapterRegistry', RP.fmt([alpha[i] for i in program[1:]]))
        if family == 'cmp':
            k = ['InterfaceClass', 'Implements', 'None', 'foreign(name,module)', 'foreign(name)', 'tuple', 'Interface', 'foreign(non-str)',
                 'InterfaceClass subclass', 'handle with own __eq__/__ne__']
            return '%s(%r,%r) vs %s(%r,%r)' % (k[program[0]], TP.CMP_STR[program[1]], TP.CMP_STR[program[2]], k[program[3]],
                                              TP.CMP_STR[program[4]], TP.CMP_STR[program[5]])
        if family == 'odd':
            return '__providedBy__=%s __provides__=%s __implemented__=%s class-kind=%d call=%s' % (
                TP.ODD_ATTR[program[0]], TP.ODD_ATTR[program[1]], TP.ODD_ATTR[program[2]], program[3], TP.ODD_FUNCS[program[4]])
        if family == 'lb':
            return '%s required=%s provided=%s name=%r uncached-answer=%s calls=%s,%s,%s' % (
                ['LookupBase', 'VerifyingBase'][program[0]], TP.LB_REQ[program[1]], TP.LB_PROV[program[2]], TP.LB_NAME[program[3]],
                TP.LB_ANS[program[4]], TP.LB_CALL[program[5]], TP.LB_CALL[program[6]], TP.LB_CALL[program[5]])
        if family == 'kw':
            return '%s with the first %d argument(s) positional and the rest by keyword (%s)' % (
                TP.KW_TARGETS[program[0]], program[1], TP.KW_MODES[program[2]])
        if family == 'snap':
            return 'chain of %d VerifyingAdapterRegistry, %s in registry #%d of the resolution order, caches %s' % (
                program[0], TP.SNAP_MUT[program[2]], program[1], 'warm' if program[3] else 'cold')
    except Exception:
        pass
    return repr(program)


def make_decl(params, part, nparts):
    from props import C01
    fullsel = 1 if params.get('full') else 0
    NA = len(C01.alphabet(bool(fullsel)))
    L = params['L']

    def h(n: int, o1: int, o2: int, o3: int):
        c1 = pick(o1, NA)
        assume(c1 % nparts == part)
        ln = pick(n, L) + 1
        idx = [c1] + [pick(o, NA) for o in (o2, o3)[:ln - 1]]
        prog = [fullsel] + idx
        ok = native(differential, 'decl', prog)
        assume(ok)
        reached(tuple(prog), dict(family='decl', program=describe('decl', prog)))
    return h


def make_reg(params, part, nparts):
    from props import C05
    NA = len(C05.alphabet(2))
    L = params['L']

    def h(fl: int, n: int, o1: int, o2: int, o3: int):
        c1 = pick(o1, NA)
        assume(c1 % nparts == part)
        ln = pick(n, L) + 1
        prog = [pick(fl, 2), c1] + [pick(o, NA) for o in (o2, o3)[:ln - 1]]
        reached(tuple(prog), dict(family='reg', program=describe('reg', prog)))
        native(differential, 'reg', prog)
    return h


def make_cmp(params, part, nparts):
    NS, NM = params.get('names', 4), params.get('mods', 3)

    def h(k1: int, i1: int, j1: int, k2: int, i2: int, j2: int):
        c1 = pick(k1, TP.NCMP_KINDS)
        c2 = pick(k2, TP.NCMP_KINDS)
        assume((c1 * TP.NCMP_KINDS + c2) % nparts == part)
        prog = [c1, pick(i1, NS), pick(j1, NM), c2, pick(i2, NS), pick(j2, NM)]
        reached(tuple(prog), dict(family='cmp', program=describe('cmp', prog)))
        native(differential, 'cmp', prog)
    return h


def make_odd(params, part, nparts):
    NAT = len(TP.ODD_ATTR)

    def h(pb: int, pv: int, im: int, ck: int, fn: int):
        c1 = pick(pb, NAT)
        c2 = pick(fn, len(TP.ODD_FUNCS))
        assume((c1 * len(TP.ODD_FUNCS) + c2) % nparts == part)
        prog = [c1, pick(pv, NAT), pick(im, NAT), pick(ck, 4), c2]
        reached(tuple(prog), dict(family='odd', program=describe('odd', prog)))
        native(differential, 'odd', prog)
    return h


def make_lb(params, part, nparts):
    NC = len(TP.LB_CALL)
    second = params.get('second', list(range(NC)))

    def h(base: int, req: int, prov: int, name: int, ans: int, c1: int, c2: int):
        a = pick(c1, NC)
        b = pick(req, len(TP.LB_REQ))
        assume((a * len(TP.LB_REQ) + b) % nparts == part)
        prog = [pick(base, 2), b, pick(prov, len(TP.LB_PROV)), pick(name, len(TP.LB_NAME)), pick(ans, len(TP.LB_ANS)), a,
                second[pick(c2, len(second))]]
        reached(tuple(prog), dict(family='lb', program=describe('lb', prog)))
        native(differential, 'lb', prog)
    return h


def make_call(params, part, nparts):
    from props import C14
    NH = params.get('max_hooks', 1)

    def h(conform: int, provided: int, nhooks: int, h0: int, h1: int, custom: int, alt: int, entry: int):
        c_conf = pick(conform, len(C14.CONFORM))
        c_cust = pick(custom, len(C14.CUSTOM))
        assume((c_conf * len(C14.CUSTOM) + c_cust) % nparts == part)
        n = pick(nhooks, NH + 1)
        hooks = [pick(x, len(C14.HOOK)) for x in (h0, h1)[:n]]
        assume(all(k < 4 for k in hooks) or c_conf in (0, 1))
        prog = [c_conf, pick(provided, 2), hooks, c_cust, pick(alt, 3), pick(entry, 2)]
        assume(not (prog[5] == 1 and prog[4] != 0))
        reached((c_conf, prog[1], tuple(hooks), c_cust, prog[4], prog[5]), dict(family='call', program=repr(prog)))
        native(differential, 'call', prog)
    return h


_ENC = ['zope.interface._zope_interface_coptimizations:SpecificationBase', 'zope.interface._zope_interface_coptimizations:InterfaceBase',
        'zope.interface._zope_interface_coptimizations:ClassProvidesBase', 'zope.interface._zope_interface_coptimizations:ObjectSpecificationDescriptor',
        'zope.interface._zope_interface_coptimizations:implementedBy', 'zope.interface._zope_interface_coptimizations:providedBy',
        'zope.interface._zope_interface_coptimizations:getObjectSpecification', 'zope.interface._zope_interface_coptimizations:LookupBase',
        'zope.interface._zope_interface_coptimizations:VerifyingBase',
        'zope.interface.interface:SpecificationBasePy', 'zope.interface.interface:InterfaceBasePy', 'zope.interface.declarations:implementedBy',
        'zope.interface.declarations:providedBy', 'zope.interface.declarations:getObjectSpecification',
        'zope.interface.adapter:LookupBaseFallback', 'zope.interface.adapter:VerifyingBaseFallback', 'zope.interface._compat:_use_c_impl']

_OR = 'the trace of the same program on the other build (results as names/tags, exception type names, subsequent query results)'


def make_snap(params, part, nparts):
    def h(L: int, k: int, m: int, w: int, f: int = 0):
        cL = pick(L, 3) + 2
        ck = pick(k, 3) + 1
        assume(ck < cL)
        cm = pick(m, len(TP.SNAP_MUT))
        assume((cL * len(TP.SNAP_MUT) + cm) % nparts == part)
        prog = [cL, ck, cm, pick(w, 2), pick(f, 8)]
        reached(tuple(prog), dict(family='snap', program=describe('snap', prog)))
        native(differential, 'snap', prog)
    return h


def make_during(params, part, nparts):
    from props import C05

    def h(f: int, e: int, m: int, w: int):
        prog = [pick(f, 2), pick(e, len(C05.DU_ENTRY)), pick(m, len(C05.DU_MUT)), pick(w, 2)]
        reached(tuple(prog), dict(family='during', program=repr(prog)))
        native(differential, 'during', prog)
    return h


def make_kw(params, part, nparts):
    NT = len(TP.KW_TARGETS)

    def h(t: int, npos: int, mode: int):
        ct = pick(t, NT)
        assume(ct % nparts == part)
        prog = [ct, pick(npos, 5), pick(mode, len(TP.KW_MODES))]
        ok = native(differential, 'kw', prog)
        assume(ok)
        reached(tuple(prog), dict(family='kw', program=describe('kw', prog)))
    return h


def reference_slice():
    """'lower:upper' of `self._verify_ro = self._registry.ro[lower:upper]` in the current Python VerifyingBase.changed (AST)."""
    import ast
    src = os.path.join(os.environ.get('VP_REPO', '/repo'), 'src', 'zope', 'interface', 'adapter.py')
    try:
        tree = ast.parse(open(src).read())
    except Exception:
        return None
    for cls in ast.walk(tree):
        if isinstance(cls, ast.ClassDef) and cls.name == 'VerifyingBase':
            for fn in cls.body:
                if isinstance(fn, ast.FunctionDef) and fn.name == 'changed':
                    for node in ast.walk(fn):
                        if (isinstance(node, ast.Assign) and len(node.targets) == 1 and isinstance(node.targets[0], ast.Attribute)
                                and node.targets[0].attr == '_verify_ro' and isinstance(node.value, ast.Subscript)
                                and isinstance(node.value.slice, ast.Slice) and node.value.slice.step is None):
                            def const(x):
                                if x is None:
                                    return ''
                                v = ast.literal_eval(x)
                                if not isinstance(v, int):
                                    raise ValueError(v)
                                return str(v)
                            try:
                                return '%s:%s' % (const(node.value.slice.lower), const(node.value.slice.upper))
                            except Exception:
                                return None
    return None


# Engine C: functional contract of the generation snapshot on the IR of verify_changed / _verify (monitor M4 of vlib/irsym.py)
def run_ir_snapshot(tier, ctx):
    import shutil
    import subprocess
    import time
    from concurrent.futures import ThreadPoolExecutor
    from vlib import irsym
    t0 = time.time()
    agg = dict(harness='ir_snapshot', impl='c', kind='IR', paths=0, reached=0, distinct=0, unknown=0, solver_queries=0, solver_s=0.0,
               samples=[], errors=[], exhaustive=False, jobs=[])
    out = dict(agg=agg, violations=[], harness_errors=[], replays_attempted=0, replays_reproduced=0)
    try:
        text, wd = irsym.build_ir()
    except Exception as e:
        out['harness_errors'].append('ir_snapshot: cannot produce the IR: %s' % e)
        return out
    try:
        irfile = os.path.join(wd, 'zic.m2r.ll')
        funcs = irsym.parse(text)
        missing = [f for f in ('_verify', 'verify_changed', 'VB_clear', '_generations_tuple') if f not in funcs]
        if missing:
            out['harness_errors'].append('ir_snapshot: functions not found in the IR (renamed?): %s' % missing)
            return out
        budget = 120 if tier != 'thorough' else 900
        ref = reference_slice()
        if ref is None:
            out['harness_errors'].append('ir_snapshot: cannot read the reference slice from VerifyingBase.changed in adapter.py (rewritten?)')
            return out
        agg['reference_slice'] = 'ro[%s]' % ref
        ctx = dict(ctx, env=dict(ctx['env'], VP_IRSYM_SLICE=ref))
        jobs = [('_verify', 0, 0, '-'), ('verify_changed', 0, 0, '-'), ('_verify', 0, 1, '-'), ('verify_changed', 0, 1, '-')]
        if tier == 'thorough':
            jobs += [('_verify', 0, 2, '-'), ('verify_changed', 0, 2, '-')]

        def run_job(job):
            entry, exotic, mh, pfx = job
            r = subprocess.run([ctx['py'], '-m', 'vlib.irsym', irfile, entry, str(exotic), str(mh), str(budget), pfx],
                               cwd=ctx['root'], env=ctx['env'], capture_output=True, text=True, timeout=budget * 2 + 120)
            for line in r.stdout.splitlines():
                if line.startswith('IRJSON '):
                    return job, json.loads(line[7:])
            return job, dict(fatal=(r.stderr or r.stdout)[-800:])
        with ThreadPoolExecutor(max_workers=ctx['ncpu']) as ex:
            results = list(ex.map(run_job, jobs))
        all_exh, found = True, []
        for job, st in results:
            if st.get('fatal'):
                out['harness_errors'].append('ir_snapshot %r: worker failed: %s' % (job, st['fatal'][-300:]))
                all_exh = False
                continue
            agg['paths'] += st['paths']
            agg['solver_queries'] += st['queries']
            agg['solver_s'] += st['solver_s']
            agg['unknown'] += st.get('n_inconclusive', 0)
            all_exh = all_exh and bool(st.get('exhausted')) and not st.get('n_inconclusive')
            agg['jobs'].append(dict(entry=job[0], max_havocs=job[2], paths=st['paths'], exhausted=st.get('exhausted'),
                                    inconclusive=st.get('n_inconclusive', 0)))
            for v in st['violations']:
                if v['kind'] == 'snapshot' and not any(x['msg'] == v['msg'] for x in found):     # memory-safety kinds belong to C11 ir_lookup
                    found.append(v)
        agg['reached'] = agg['distinct'] = agg['paths']
        agg['exhaustive'] = all_exh
        agg['solver_s'] = round(agg['solver_s'], 2)
        agg['stubs'] = {k: v for k, v in irsym.STUB_DOC.items() if 'Tuple' in k or 'GetAttr' in k or 'RichCompare' in k or 'Call' in k}
        # replay: every program of the 'snap' family on both builds; the finding is confirmed by a divergence of the real C build
        for k, v in enumerate(found[:4]):
            out['replays_attempted'] += 1
            hit = None
            for L in (2, 3, 4):
                for kk in range(1, L):
                    for m in range(len(TP.SNAP_MUT)):
                        for w in (1, 0):
                            prog = [L, kk, m, w]
                            try:
                                differential('snap', prog, ctx['env'])
                            except Violation as e:
                                hit = (prog, e)
                                break
                        if hit:
                            break
                    if hit:
                        break
                if hit:
                    break
            what = 'IR path in %s: %s' % (v['function'], v['msg'][:300])
            if hit is None:
                out['harness_errors'].append('ir_snapshot: %s - NOT reproduced by any snapshot program on the real build (inconclusive); trace: %s' % (
                    what, ' | '.join(v['trace'][-6:])[:600]))
                continue
            out['replays_reproduced'] += 1
            rpath = os.path.join(ctx['evdir'], 'replays', 'C10-ir_snapshot-%d.json' % k)
            os.makedirs(os.path.dirname(rpath), exist_ok=True)
            with open(rpath, 'w') as f:
                json.dump(dict(property='C10', harness='d_snap', impl='py', params={},
                               args=dict(L=hit[0][0] - 2, k=hit[0][1] - 1, m=hit[0][2], w=hit[0][3]),
                               ir_finding=dict(function=v['function'], kind=v['kind'], msg=v['msg'], trace=v['trace'][-25:]),
                               msg=hit[1].msg, signature=hit[1].signature), f, indent=1)
            out['violations'].append(dict(harness='ir_snapshot', impl='c', msg='%s; reproduced on the real build: %s' % (what, hit[1].msg[:400]),
                                          signature='C10:ir:snapshot:%s' % v['function'], replay=rpath))
    finally:
        shutil.rmtree(wd, ignore_errors=True)
    agg['cpu_s'] = round(time.time() - t0, 1)
    return out


def _h(name, make, quick, thorough, bounds, qb=150, tb=3000, parts=16):
    return Harness(name, make, kind='E', impls=('py',),
                   tiers=dict(quick=dict(budget_s=qb, parts=parts, params=quick), thorough=dict(budget_s=tb, parts=parts, params=thorough)),
                   encoded=_ENC, bounds=bounds, oracle=_OR, outside='programs outside the enumerated families and bounds; PyPy; free-threaded builds',
                   stubs=['sibling process running the C build (fresh compile of the current .c)'])


HARNESSES = [
    _h('d_decl', make_decl, dict(L=3), dict(L=2, full=True),
       'declaration programs: every history of <=3 calls from the 26-op alphabet of C01 (thorough: <=2 from the 183-op alphabet); trace = '
       'provided/implemented sets of every object and class plus the name sequence of every __sro__ after each step'),
    _h('d_reg', make_reg, dict(L=1), dict(L=2),
       'registry programs on a 2-registry chain of either flavour: every history of <=1 (thorough 2) mutations from 55 (registrations, rebuild(), '
       'subscriptions, registry/interface __bases__, declarations); trace = every entry point for every key (arity 0-2, defaults, objects) '
       'from both registries before and after each step'),
    _h('d_cmp', make_cmp, dict(names=4, mods=3), dict(names=7, mods=4),
       'comparison programs: ordered pairs of operands from {InterfaceClass, Implements, None, foreign objects with/without/with non-string '
       '__name__/__module__, tuple, Interface, InterfaceClass subclass, a handle with its own __eq__/__ne__ and no name} x names x modules (fresh string objects); all six operators through '
       'operator.* and the dunder, both directions, self, hash, sorted()', parts=9),
    _h('d_odd', make_odd, {}, {},
       'protocol programs: objects whose __providedBy__ / __provides__ / __implemented__ are absent, a specification, a declaration, None, a '
       'non-specification, raising AttributeError / ValueError, or another class\'s specification x 4 class kinds (plain, subclass of a '
       'declared class, slots, lying __class__) x 9 entry points (providedBy, I.providedBy, implementedBy, getObjectSpecification, ...), each twice'),
    _h('d_lb', make_lb, dict(second=[0, 1, 3, 5]), {},
       'lookup-base programs: LookupBase / VerifyingBase subclasses with overridden _uncached_* driven directly: required as tuple / list / '
       'generator / str / unhashable / non-iterable / empty, provided hashable / unhashable / None, name "" / "n" / 42 / None / bytes, uncached '
       'answer None / factory / falsy / raises, every ordered pair of 9 calls (quick: 9 x 4), first call repeated'),
    _h('d_call', make_call, dict(max_hooks=1), dict(max_hooks=2),
       'adaptation programs: the product of C14 with hook lists of length <=1 (thorough 2); trace = outcome and executed-step log', parts=13),
    _h('d_snap', make_snap, {}, {},
       'generation-snapshot programs: chains of 2..4 VerifyingAdapterRegistry, one mutation (register / unregister / subscribe / unsubscribe / '
       'added base) in any registry behind the front one, caches warm or cold; trace = 8 entry points of the front registry before and '
       'after, and of a chain built afterwards', qb=60, tb=120, parts=4),
    _h('d_during', make_during, {}, {},
       'programs in which a looked-up specification\'s subscribe() changes the registry while the lookup is in progress (2 flavours x 6 entry '
       'points x 5 mutations x caches empty / holding another key); trace = the interrupted answer and the same call repeated', qb=30, tb=60, parts=1),
    _h('d_kw', make_kw, {}, {},
       'call-shape programs: 21 callables the accelerator implements (6 lookup entry points x 2 registry flavours, Interface.__call__, '
       '__adapt__, isOrExtends, providedBy / implementedBy as methods and functions, getObjectSpecification, changed) x every split of the '
       'documented parameter list into leading positional and trailing keyword arguments x {correct names, one misspelled keyword, first '
       'argument given twice}', qb=60, tb=60, parts=7),
    Harness('ir_snapshot', kind='custom', impls=('c',), run=run_ir_snapshot,
            tiers=dict(quick=dict(budget_s=120, parts=1, params={}), thorough=dict(budget_s=900, parts=1, params={})),
            encoded=['zope.interface._zope_interface_coptimizations:verify_changed', 'zope.interface._zope_interface_coptimizations:_verify',
                     'zope.interface._zope_interface_coptimizations:_generations_tuple', 'zope.interface.adapter:VerifyingBase.changed',
                     'zope.interface.adapter:VerifyingBase._verify'],
            bounds='LLVM IR (clang-14 -O0 + mem2reg) of verify_changed and _verify with every C-API outcome a decision; resolution orders of '
                   '0..2 registries (loops unrolled); 0..1 nested changed() (thorough 0..2); contract M4: on normal return _verify_ro is '
                   'tuple(registry.ro)[1:len] and _verify_generations has one entry per registry; _verify calls changed() iff the recorded '
                   'generations differ',
            outside='resolution orders longer than 2 at the IR level (the d_snap programs run chains up to 4); exotic registries whose '
                    '_generation/ro are computed (C11 ir_lookup)',
            oracle='the Python reference VerifyingBase.changed/_verify as a postcondition over the IR state; findings replayed as a C-vs-Python '
                   'divergence of a d_snap program'),
]
for _x in HARNESSES:
    _x.needs_c = True

MANIFEST = {
    'engine': 'symx',
    'technique': 'symbolic execution (CrossHair engine + z3) enumerating API programs of six families; each program is executed on the '
                 'pure-Python build and, in a sibling process, on a fresh build of the current C source; traces compared',
    'text': 'Bounded-exhaustive differential: every program of the six families within the stated bounds is run on both implementations '
            'and the complete traces (results, exception types at each point, subsequent behaviour) must be identical. Together with the '
            'both-build runs of the other properties\' harnesses this covers the public API families named in the statement.',
    'note': 'Trusted: trace normalisation (names/tags); "all programs" is approximated by six bounded program families (stated).',
}
