"""C19 super() proxies see only the remainder of the MRO.

E tier: every ordered class DAG on N nodes that Python accepts, with one instance per class,
initial declarations (each class implements its own interface; one class may use the *only*
form, one may declare nothing), an optional warm-up super query, and a history of later
declaration changes; for every (C, ob) along every MRO `providedBy(super(C, ob))`,
`implementedBy(super(C, ob))`, `I.providedBy(super(C, ob))` and registry adaptation of the proxy
are compared with a set model written from the statement.
"""
from vlib.harness import Harness
from vlib.symx import Violation, assume, native, pick, reached
from vlib import universe as U

N = 4
# interfaces: J0..J3 (one per class), X1(J0), X2, Y (instance), IP (provided by adapters)
IN = ['J0', 'J1', 'J2', 'J3', 'X1', 'X2', 'Y']
NIF = len(IN)
ISHAPE = ((), (), (), (), (0,), (), ())
CLOS = [frozenset(U.ancestors(ISHAPE, i)) for i in range(NIF)]


def closure(s):
    out = set()
    for i in s:
        out |= CLOS[i]
    return out


class World:
    def __init__(self, shape, only, undeclared):
        from zope.interface import implementer, implementer_only
        from zope.interface.adapter import AdapterRegistry
        from zope.interface.interface import InterfaceClass
        from zope.interface import Interface
        self.shape = shape
        self.I = U.build_ifaces(ISHAPE, prefix='T')
        self.IP = InterfaceClass('IP', (Interface,), __module__=self.I[0].__module__)
        self.K = []
        self.declared = []
        self.inherit = []
        for i, bases in enumerate(shape):
            b = tuple(self.K[j] for j in bases) or (object,)
            cls = type('K%d' % i, b, {})      # may raise TypeError: no consistent MRO
            if i == undeclared:
                self.declared.append(set())
                self.inherit.append(True)
            elif i == only:
                cls = implementer_only(self.I[i])(cls)
                self.declared.append({i})
                self.inherit.append(False)
            else:
                cls = implementer(self.I[i])(cls)
                self.declared.append({i})
                self.inherit.append(True)
            self.K.append(cls)
        self.obs = [k() for k in self.K]
        self.direct = [set() for _ in self.K]
        # one registry per interface T with a single adapter [T] -> IP
        self.regs = []
        for t, T in enumerate(self.I):
            r = AdapterRegistry()
            r.register([T], self.IP, '', _Factory(t))
            self.regs.append(r)

    # ---- model -------------------------------------------------------------
    def implements(self, c):
        out = set(closure(self.declared[c]))
        if self.inherit[c]:
            for b in self.shape[c]:
                out |= self.implements(b)
        return out

    def expected_super(self, ci, oi):
        mro = [self.K.index(k) for k in self.K[oi].__mro__ if k is not object]
        after = mro[mro.index(ci) + 1:]
        out = set()
        for c in after:
            out |= self.implements(c)
        return out


class _Factory:
    def __init__(self, t):
        self.t = t

    def __call__(self, ob):
        return ('adapted', self.t, ob)


class _SubSuper(super):
    pass


def observe(w, hist):
    from zope.interface import Interface, implementedBy, providedBy
    idx = {id(x): k for k, x in enumerate(w.I)}
    for oi, ob in enumerate(w.obs):
        for C in type(ob).__mro__:
            if C is object:
                ci, exp = -1, set()         # super(object, ob): no class is left after the last one of the MRO
            else:
                ci = w.K.index(C)
                exp = w.expected_super(ci, oi)
            s = super(C, ob)
            ctx = 'shape=%s %s: super(K%d, K%d())' % (w.shape, hist, ci, oi)
            flat = list(providedBy(s).flattened())
            got = {idx[id(x)] for x in flat if id(x) in idx}
            if got != exp:
                raise Violation('%s: providedBy(...) reports %s, the classes after K%d in the MRO implement %s' % (
                    ctx, _n(got), ci, _n(exp)), signature='C19:providedBy-super')
            got2 = {idx[id(x)] for x in implementedBy(s).flattened() if id(x) in idx}
            if got2 != exp:
                raise Violation('%s: implementedBy(...) reports %s, expected %s' % (ctx, _n(got2), _n(exp)),
                                signature='C19:implementedBy-super')
            for t, T in enumerate(w.I):
                if bool(T.providedBy(s)) != (t in exp):
                    raise Violation('%s: %s.providedBy(...) is %s, expected %s' % (ctx, IN[t], t not in exp, t in exp),
                                    signature='C19:I.providedBy-super')
                for how in ('queryAdapter', 'adapter_hook', 'queryMultiAdapter', 'queryMultiAdapter:subclass-of-super',
                            'queryAdapter:subclass-of-super'):
                    s2 = super(C, ob)
                    if how.endswith(':subclass-of-super'):
                        s2 = _SubSuper(C, ob)       # a proxy whose type is a subclass of super is a super proxy all the same
                        how = how.split(':')[0]
                    if how == 'queryAdapter':
                        r = w.regs[t].queryAdapter(s2, w.IP)
                    elif how == 'adapter_hook':
                        r = w.regs[t].adapter_hook(w.IP, s2)
                    else:
                        r = w.regs[t].queryMultiAdapter((s2,), w.IP)
                    if t in exp:
                        if not (isinstance(r, tuple) and r[0] == 'adapted' and r[1] == t and r[2] is ob):
                            raise Violation('%s: %s for the adapter registered for %s returns %r; expected the factory to be called '
                                            'with the underlying object' % (ctx, how, IN[t], r), signature='C19:adapt-super')
                    elif r is not None:
                        raise Violation('%s: %s finds the adapter registered for %s although no class after K%d implements it: %r' % (
                            ctx, how, IN[t], ci, r), signature='C19:adapt-super')
        # the plain object is unaffected by the proxies
        full = w.implements(oi) | closure(w.direct[oi])
        got = {idx[id(x)] for x in providedBy(ob).flattened() if id(x) in idx}
        if got != full:
            raise Violation('shape=%s %s: providedBy(K%d()) reports %s, expected %s' % (w.shape, hist, oi, _n(got), _n(full)),
                            signature='C19:plain-object')


def _n(s):
    return '{' + ','.join(IN[i] for i in sorted(s)) + '}'


def ops_alphabet():
    ops = []
    for c in range(N):
        ops.append(('classImplements', c))
        ops.append(('classImplementsOnly', c))
    for o in range(N):
        ops.append(('directlyProvides', o))
    return ops


OPS = ops_alphabet()


def apply_op(w, op, k):
    from zope.interface import classImplements, classImplementsOnly, directlyProvides
    x = 4 + k            # X1 for the first op, X2 for the second: never redundant, so nothing is elided
    if op[0] == 'classImplements':
        classImplements(w.K[op[1]], w.I[x])
        w.declared[op[1]].add(x)
    elif op[0] == 'classImplementsOnly':
        classImplementsOnly(w.K[op[1]], w.I[x])
        w.declared[op[1]] = {x}
        w.inherit[op[1]] = False
    else:
        directlyProvides(w.obs[op[1]], w.I[6])
        w.direct[op[1]] = {6}


def fmt_op(op, k):
    if op[0] == 'directlyProvides':
        return 'directlyProvides(K%d(), Y)' % op[1]
    return '%s(K%d, %s)' % (op[0], op[1], IN[4 + k])


def run(shape, only, undeclared, warm, ops):
    try:
        w = World(shape, only, undeclared)
    except TypeError:
        return False
    hist = ['only=K%s undeclared=K%s' % (only, undeclared)]
    if warm:
        observe(w, hist)
    for k, op in enumerate(ops):
        apply_op(w, op, k)
        hist.append(fmt_op(op, k))
        observe(w, hist)
    if not ops and not warm:
        observe(w, hist)
    return True


def make_e(params, part, nparts):
    L = params['L']
    onlys = params.get('onlys', [None, 1, 2, 3])
    undecl = params.get('undecl', [None, 1, 2])
    NO = len(OPS)

    def h(s1: int, s2: int, s3: int, so: int, su: int, sw: int, n: int, o1: int, o2: int):
        shape = U.decode_dag((s1, s2, s3), N)
        key = sum(len(b) * (i + 1) for i, b in enumerate(shape))
        assume(key % nparts == part)
        only = onlys[pick(so, len(onlys))]
        und = undecl[pick(su, len(undecl))]
        assume(only is None or only != und)
        warm = pick(sw, 2)
        ln = pick(n, L + 1)
        ops = tuple(OPS[pick(o, NO)] for o in (o1, o2)[:ln])
        ok = native(run, shape, only, und, warm, ops)
        assume(ok)
        reached((shape, only, und, warm, ops), dict(shape=str(shape), only=only, undeclared=und, warm=warm,
                                                     ops=[fmt_op(o, k) for k, o in enumerate(ops)]))
    return h


def run_odd(kind, warm):
    """The underlying object carries an `__implemented__` of its own that is reachable *through* the proxy's `__dict__`:
    kind 0: a callable (non-class) factory instance declared with implementer(IProduct)(factory) - the documented way to say what a
            factory produces - queried through super(Factory, factory);
    kind 1: a class Klass with metaclass Meta(MetaBase), queried through super(Meta, Klass) (the proxy's __dict__ is Klass.__dict__).
    The proxy must report what the classes after C in type(ob).__mro__ implement, whatever the object itself declares."""
    from zope.interface import Interface, implementer, implementedBy, providedBy
    from zope.interface.adapter import AdapterRegistry
    from zope.interface.interface import InterfaceClass
    mod = U.fresh_module_name()
    IBase, IProduct, IOwn, IP = [InterfaceClass(n, (Interface,), __module__=mod) for n in ('IBase', 'IProduct', 'IOwn', 'IP')]
    if kind == 0:
        @implementer(IBase)
        class Base:
            pass

        @implementer(IOwn)
        class Factory(Base):
            def __call__(self):
                return None
        ob = Factory()
        C = Factory
        declare = lambda: implementer(IProduct)(ob)      # noqa: E731   stores __implemented__ in the instance dict
    else:
        @implementer(IBase)
        class MetaBase(type):
            pass

        @implementer(IOwn)
        class Meta(MetaBase):
            pass
        ob = Meta('Klass', (), {})
        C = Meta
        declare = lambda: implementer(IProduct)(ob)      # noqa: E731   what instances of Klass implement
    what = ('super(Factory, factory) of a callable factory instance declared with implementer(IProduct)(factory)',
            'super(Meta, Klass) of a class Klass declared with implementer(IProduct)')[kind]
    regs = {}
    for I in (IBase, IProduct, IOwn):
        r = AdapterRegistry()
        r.register([I], IP, '', _Factory(I.__name__))
        regs[I] = r

    def check(when):
        s = super(C, ob)
        exp = {IBase}
        for label, spec in (('providedBy', providedBy(s)), ('implementedBy', implementedBy(s))):
            got = {x for x in spec.flattened() if x in (IBase, IProduct, IOwn)}
            if got != exp:
                raise Violation('%s, %s: %s(proxy) reports %s, the classes after it in the MRO implement [IBase]' % (
                    what, when, label, sorted(x.__name__ for x in got)), signature='C19:odd:' + label)
        for I in (IBase, IProduct, IOwn):
            if bool(I.providedBy(s)) != (I in exp):
                raise Violation('%s, %s: %s.providedBy(proxy) is %s' % (what, when, I.__name__, I not in exp), signature='C19:odd:I.providedBy')
            for how in ('queryAdapter', 'adapter_hook', 'queryMultiAdapter'):
                s2 = super(C, ob)
                if how == 'queryAdapter':
                    r = regs[I].queryAdapter(s2, IP)
                elif how == 'adapter_hook':
                    r = regs[I].adapter_hook(IP, s2)
                else:
                    r = regs[I].queryMultiAdapter((s2,), IP)
                ok = (isinstance(r, tuple) and r[1] == I.__name__ and r[2] is ob) if I in exp else r is None
                if not ok:
                    raise Violation('%s, %s: %s with the adapter registered for %s returns %r' % (what, when, how, I.__name__, r),
                                    signature='C19:odd:adapt')
    if warm:
        check('before the object-level declaration')
    declare()
    check('after the object-level declaration')
    check('repeated')


def make_e_odd(params, part, nparts):
    def h(kind: int, warm: int):
        case = (pick(kind, 2), pick(warm, 2))
        reached(case, dict(kind=case[0], warm=case[1]))
        native(run_odd, *case)
    return h


_ENC = ['zope.interface.declarations:_implementedBy_super', 'zope.interface.declarations:_next_super_class',
        'zope.interface.declarations:Implements.changed', 'zope.interface.declarations:implementedBy',
        'zope.interface.declarations:providedBy', 'zope.interface.adapter:LookupBaseFallback.adapter_hook',
        'zope.interface.adapter:AdapterLookupBase.queryMultiAdapter',
        'zope.interface._zope_interface_coptimizations:providedBy', 'zope.interface._zope_interface_coptimizations:LookupBase']

HARNESSES = [
    Harness('e_super', make_e, kind='E', impls=('py', 'c'),
            tiers=dict(quick=dict(budget_s=150, parts=16, params=dict(L=1, onlys=[None, 1, 2], undecl=[None, 2])),
                       thorough=dict(budget_s=3000, parts=16, params=dict(L=2, onlys=[None, 0, 1, 2, 3], undecl=[None, 0, 1, 2, 3]))),
            encoded=_ENC,
            bounds='every ordered class DAG on 4 classes that Python accepts (<=160), one instance per class; each class implements its own '
                   'interface, one class (quick: none/K1/K2) uses implementer_only, one (quick: none/K2) declares nothing; with and '
                   'without a warm-up query of every super proxy; then every history of <=1 (thorough 2) later changes from 12 '
                   '(classImplements / classImplementsOnly of a fresh interface on any class, directlyProvides on any instance); every '
                   '(C, ob) along every MRO after every step; adaptation through 7 single-adapter registries kept across the history',
            outside='more than 4 classes; super(C, cls) class-bound proxies; histories longer than the bound; redundant declarations (C01 covers elision)',
            oracle='union over the classes after C in type(ob).__mro__ of the set model implements(c) (declared + inherited unless *only*), '
                   'never the instance\'s direct declarations; adapter found iff its required interface is in that set, factory called with ob itself'),
    Harness('e_super_odd', make_e_odd, kind='E', impls=('py', 'c'),
            tiers=dict(quick=dict(budget_s=30, parts=1, params={}), thorough=dict(budget_s=30, parts=1, params={})),
            encoded=_ENC + ['zope.interface._zope_interface_coptimizations:implementedBy'],
            bounds='two shapes in which the underlying object has an __implemented__ of its own reachable through the proxy: a callable factory '
                   'instance declared with implementer(I)(instance), and a class queried through super(Meta, Klass) of its metaclass; with and '
                   'without a query before the object-level declaration; providedBy / implementedBy / I.providedBy / three adaptation paths',
            outside='other attribute-forwarding tricks of the underlying object', oracle='interfaces implemented by the classes after C in type(ob).__mro__'),
]

MANIFEST = {
    'engine': 'symx',
    'technique': 'symbolic execution (CrossHair engine + z3) over solver-enumerated class DAGs, declaration forms and later-change histories; '
                 'every super(C, ob) proxy queried through providedBy/implementedBy/I.providedBy and registry adaptation on both builds; set-model oracle',
    'text': 'Bounded-exhaustive over every 4-class ordered DAG, initial declaration form and later declaration history up to the bound, with '
            'cold and warm super caches; every (C, ob) pair along every MRO is compared with the set model. The per-class weak cache of super '
            'specifications and its invalidation depend on which class changed after which query, which the enumeration covers.',
    'note': 'Trusted: 15-line set model; CPython MRO.',
}
