"""C17 verifyObject/verifyClass accept exactly the candidates meeting the contract."""
import inspect
import json
import os
import subprocess
import time

from vlib.harness import Harness
from vlib.symx import Violation, assume, native, pick, reached


# ---------------------------------------------------------------------------
# Engine B: verify._incompat from its AST, unbounded integers
# ---------------------------------------------------------------------------

def _encode_incompat():
    import z3
    from zope.interface import verify
    from vlib.astsmt import Encoder
    V = {}
    for side in ('r', 'i'):
        V[side + '_req'] = z3.Int(side + '_req')
        V[side + '_pos'] = z3.Int(side + '_pos')
        V[side + '_va'] = z3.Bool(side + '_va')
        V[side + '_kw'] = z3.Bool(side + '_kw')

    def leaf(param, key, mode):
        side = 'r' if param == 'required' else 'i'
        if mode == 'len' and key in ('required', 'positional'):
            return V[side + ('_req' if key == 'required' else '_pos')]
        if mode == 'truth' and key in ('varargs', 'kwargs'):
            # a parameter name is a non-empty str, or None
            return V[side + ('_va' if key == 'varargs' else '_kw')]
        from vlib.astsmt import Unsupported
        raise Unsupported('leaf %s[%r] in mode %s' % (param, key, mode))

    enc = Encoder(verify._incompat, leaf)
    term = enc.encode()
    return enc, term, V


def _spec(V, z3):
    k = z3.Int('k')
    kw = z3.Bool('kwd')

    def admits(side):
        return z3.And(V[side + '_req'] <= k, z3.Or(k <= V[side + '_pos'], V[side + '_va']),
                      z3.Implies(kw, V[side + '_kw']))
    dom = z3.And(V['r_req'] >= 0, V['r_req'] <= V['r_pos'], V['i_req'] >= 0, V['i_req'] <= V['i_pos'])
    return k, kw, admits('r'), admits('i'), dom


def _real_incompat(vals):
    from zope.interface import verify

    def info(side):
        pos = tuple('p%d' % j for j in range(vals[side + '_pos']))
        return dict(positional=pos, required=pos[:vals[side + '_req']], optional={},
                    varargs='a' if vals[side + '_va'] else None,
                    kwargs='k' if vals[side + '_kw'] else None)
    return verify._incompat(info('r'), info('i'))


def _mk_src(name, req, pos, va, kw, self_=False, kwonly=False):
    ps = (['self'] if self_ else []) + ['p%d' % j for j in range(req)] + \
         ['p%d=None' % j for j in range(req, pos)]
    if va:
        ps.append('*va')
    if kwonly:              # a keyword-only parameter with a default: never needed by a positional call shape
        if not va:
            ps.append('*')
        ps.append('strict=False')
    if kw:
        ps.append('**kw')
    return 'def %s(%s): pass\n' % (name, ', '.join(ps))


def _admitted_shapes(r_req, r_pos, r_va, r_kw):
    ks = list(range(r_req, r_pos + 1)) + ([r_pos + 1, r_pos + 4] if r_va else [])
    for k in ks:
        yield k, {}
        if r_kw:
            yield k, {'zz_other': 1}


def _binds(fn, k, kws):
    try:
        # the signature a caller reaches: a functools.wraps-decorated method is called through its wrapper
        inspect.signature(fn, follow_wrapped=False).bind(*range(k), **kws)
        return True
    except TypeError:
        return False


def check_pair(vals, mode):
    """Public-API replay: real interface method x real implementation of the given
    arities; oracle = inspect.signature(impl).bind on every admitted call shape."""
    from zope.interface import Interface, implementer
    from zope.interface.interface import InterfaceClass, fromFunction
    from zope.interface.verify import verifyObject, verifyClass
    from zope.interface.exceptions import BrokenMethodImplementation, Invalid
    ns = {}
    exec(_mk_src('m', vals['r_req'], vals['r_pos'], vals['r_va'], vals['r_kw'], kwonly=vals.get('r_ko', False)), ns)
    I = InterfaceClass('I', (Interface,), {'m': fromFunction(ns['m'], name='m')})
    ns2 = {}
    # '-va' modes: a method whose implied self is collected by its *args (def m(*va)): no explicit self parameter
    self_in_va = mode.endswith('-va')
    mode = mode.replace('-va', '')
    exec(_mk_src('m', vals['i_req'], vals['i_pos'], vals['i_va'], vals['i_kw'], self_=(mode not in ('attr', 'static', 'static-class') and not self_in_va), kwonly=vals.get('i_ko', False)), ns2)
    impl = ns2['m']
    if mode == 'wrapped':
        # a decorated method: the wrapper (generated signature) is what callers reach; the function it wraps takes something else
        import functools
        exec('def inner(self, q0, q1, q2, q3, q4, q5): pass\n', ns2)
        impl = functools.wraps(ns2['inner'])(impl)
        mode = 'method'
    if mode in ('static', 'static-class'):      # @staticmethod: no self, neither through the instance nor through the class
        K = implementer(I)(type('K', (object,), {'m': staticmethod(impl)}))
        target = K().m
        verifier, subject = (verifyObject, K()) if mode == 'static' else (verifyClass, K)
    elif mode == 'attr':       # plain function stored on the instance
        K = implementer(I)(type('K', (object,), {}))
        cand = K()
        cand.m = impl
        target = impl
        verifier, subject = verifyObject, cand
    elif mode == 'method':   # bound method
        K = implementer(I)(type('K', (object,), {'m': impl}))
        cand = K()
        target = cand.m
        verifier, subject = verifyObject, cand
    else:                    # verifyClass, function with self
        K = implementer(I)(type('K', (object,), {'m': impl}))
        target = K().m
        verifier, subject = verifyClass, K
    expected_ok = all(_binds(target, k, kws) for k, kws in
                      _admitted_shapes(vals['r_req'], vals['r_pos'], vals['r_va'], vals['r_kw']))
    try:
        verifier(I, subject)
        got_ok = True
    except BrokenMethodImplementation:
        got_ok = False
    if got_ok != expected_ok:
        raise Violation('%s: interface %s implementation %s: verify says %s, binding every admitted call shape says %s' % (
            mode, _mk_src('m', vals['r_req'], vals['r_pos'], vals['r_va'], vals['r_kw'], kwonly=vals.get('r_ko', False)).strip(),
            _mk_src('m', vals['i_req'], vals['i_pos'], vals['i_va'], vals['i_kw'], kwonly=vals.get('i_ko', False)).strip(), got_ok, expected_ok),
            signature='C17:arity:%s' % ('accepts-nonbinding' if got_ok else 'rejects-binding'))


def run_b_incompat(tier, ctx):
    import z3
    t0 = time.time()
    agg = dict(harness='b_incompat', impl='py', kind='B', paths=0, reached=0, distinct=0,
               unknown=0, solver_queries=0, solver_s=0.0, samples=[], errors=[], exhaustive=False)
    out = dict(agg=agg, violations=[], harness_errors=[], replays_attempted=0, replays_reproduced=0)
    try:
        enc, term, V = _encode_incompat()
    except Exception as e:
        out['harness_errors'].append('b_incompat: AST of verify._incompat outside the supported subset: %s: %s'
                                     % (type(e).__name__, e))
        return out
    k, kw, adm_r, adm_i, dom = _spec(V, z3)
    incompat = term != 0
    names = sorted(V)

    # translator validation: real function vs encoding on a grid + the repo's own test vectors
    grid = []
    for r_req in range(3):
        for r_pos in range(r_req, 4):
            for i_req in range(3):
                for i_pos in range(i_req, 4):
                    for bits in range(16):
                        grid.append(dict(r_req=r_req, r_pos=r_pos, i_req=i_req, i_pos=i_pos,
                                         r_va=bool(bits & 1), r_kw=bool(bits & 2),
                                         i_va=bool(bits & 4), i_kw=bool(bits & 8)))
    inv_consts = {c: s for s, c in enc.consts.items()}
    mismatch = 0
    for vals in grid:
        sub = [(V[n], z3.BoolVal(vals[n]) if isinstance(vals[n], bool) else z3.IntVal(vals[n])) for n in names]
        code = z3.simplify(z3.substitute(term, *sub)).as_long()
        real = _real_incompat(vals)
        if inv_consts.get(code) != real:
            mismatch += 1
            out['harness_errors'].append('translator validation: %r real=%r encoding=%r' % (vals, real, inv_consts.get(code)))
            if mismatch > 3:
                break
    agg['translator_validation_points'] = len(grid)
    if mismatch:
        return out

    def solve(name, *assertions, bounded=None):
        s = z3.Solver()
        s.set('timeout', 60000)
        s.add(dom, *assertions)
        if bounded is not None:
            for n in ('r_pos', 'i_pos'):
                s.add(V[n] <= bounded)
        t = time.time()
        r = s.check()
        agg['solver_queries'] += 1
        agg['solver_s'] += time.time() - t
        return str(r), (s.model() if str(r) == 'sat' else None), s

    obligations = [
        # (a) accepts => every admitted call shape binds   (negation: accepts and exists non-binding shape)
        ('accepts-nonbinding', [z3.Not(incompat), k >= 0, adm_r, z3.Not(adm_i)]),
        # (b) rejects => some admitted call shape does not bind (negation: rejects and forall shapes bind)
        ('rejects-binding', [incompat, z3.ForAll([k, kw], z3.Implies(z3.And(k >= 0, adm_r), adm_i))]),
        # reachability twins (must be sat)
        ('twin-accept', [z3.Not(incompat)]),
        ('twin-reject', [incompat]),
    ]
    smt2 = {}
    for name, asserts in obligations:
        res, model, solver = None, None, None
        if not name.startswith('twin'):
            res, model, solver = solve(name, *asserts, bounded=5)  # small witness first
            if res != 'sat':
                res, model, solver = solve(name, *asserts)
        else:
            res, model, solver = solve(name, *asserts)
        smt2[name] = solver.to_smt2()
        agg['paths'] += 1
        sample = dict(obligation=name, result=res)
        if name.startswith('twin'):
            if res != 'sat':
                out['harness_errors'].append('b_incompat: reachability twin %s is %s (vacuous encoding)' % (name, res))
            else:
                agg['reached'] += 1
                agg['distinct'] += 1
        elif res == 'unsat':
            agg['reached'] += 1
            agg['distinct'] += 1
        elif res == 'sat':
            vals = {}
            for n in names:
                v = model.eval(V[n], model_completion=True)
                vals[n] = bool(z3.is_true(v)) if z3.is_bool(v) else v.as_long()
            sample['model'] = vals
            # replay against the real code through the public API
            out['replays_attempted'] += 1
            reproduced = None
            for mode in ('attr', 'method', 'class'):
                try:
                    check_pair(vals, mode)
                except Violation as v:
                    reproduced = v
                    break
            if reproduced is not None:
                out['replays_reproduced'] += 1
                os.makedirs(os.path.join(ctx['evdir'], 'replays'), exist_ok=True)
                rpath = os.path.join(ctx['evdir'], 'replays', 'C17-b_incompat-%s.json' % name)
                with open(rpath, 'w') as f:
                    json.dump(dict(property='C17', harness='e_pairs', impl='py',
                                   params=dict(fixed=vals), args=dict(r_req=0, r_opt=0, r_flags=0, i_req=0, i_opt=0, i_flags=0, mode=0), msg=reproduced.msg,
                                   signature=reproduced.signature), f, indent=1)
                out['violations'].append(dict(harness='b_incompat', impl='py', msg=reproduced.msg,
                                              signature=reproduced.signature, replay=rpath))
            else:
                out['harness_errors'].append('b_incompat: model %r for %s did not reproduce through verifyObject' % (vals, name))
        else:
            agg['unknown'] += 1
            agg['errors'].append('%s: solver answered %s' % (name, res))
        agg['samples'].append(sample)

    # second solver on the SMT-LIB dumps (thorough): /usr/bin/z3 4.8.12
    if tier == 'thorough':
        import tempfile
        for name, text in smt2.items():
            with tempfile.NamedTemporaryFile('w', suffix='.smt2', delete=False) as f:
                f.write(text + '\n(check-sat)\n')
                path = f.name
            try:
                r = subprocess.run(['/usr/bin/z3', '-T:60', path], capture_output=True, text=True, timeout=90)
                ans = r.stdout.strip().splitlines()[0] if r.stdout.strip() else 'none'
                bad = '(error' in r.stdout
            except Exception as e:
                ans, bad = 'error:%s' % e, True
            finally:
                os.unlink(path)
            first = [s_ for s_ in agg['samples'] if s_['obligation'] == name][0]
            first['second_solver'] = ans
            if bad or ans != first['result']:
                agg['unknown'] += 1
                agg['errors'].append('%s: second solver says %s vs %s' % (name, ans, first['result']))
    agg['solver_s'] = round(agg['solver_s'], 3)
    agg['ast_nodes_encoded'] = enc.nodes
    agg['exhaustive'] = agg['unknown'] == 0 and not out['harness_errors']
    agg['cpu_s'] = round(time.time() - t0, 2)
    agg['note'] = 'unbounded non-negative integers; obligations are unsat queries, not paths'
    return out


# ---------------------------------------------------------------------------
# Engine A (E): real pairs through verifyObject / verifyClass
# ---------------------------------------------------------------------------

def make_e_pairs(params, part, nparts):
    MAXR = params.get('max_req', 2)
    MAXO = params.get('max_opt', 2)
    fixed = params.get('fixed')

    def h(r_req: int, r_opt: int, r_flags: int, i_req: int, i_opt: int, i_flags: int, mode: int):
        if fixed:
            vals = dict(fixed)
            for m in ('attr', 'method', 'class'):
                check_pair(vals, m)
            return
        c_mode = pick(mode, 8)
        c_rreq = pick(r_req, MAXR + 1)
        c_ropt = pick(r_opt, MAXO + 1)
        assume(((c_mode * (MAXR + 1) + c_rreq) * (MAXO + 1) + c_ropt) % nparts == part)
        c_rf = pick(r_flags, 8)
        c_ireq = pick(i_req, MAXR + 1)
        c_iopt = pick(i_opt, MAXO + 1)
        c_if = pick(i_flags, 8)
        vals = dict(r_req=c_rreq, r_pos=c_rreq + c_ropt, r_va=bool(c_rf & 1), r_kw=bool(c_rf & 2), r_ko=bool(c_rf & 4),
                    i_req=c_ireq, i_pos=c_ireq + c_iopt, i_va=bool(c_if & 1), i_kw=bool(c_if & 2), i_ko=bool(c_if & 4))
        m = ('attr', 'method', 'class', 'method-va', 'class-va', 'static', 'static-class', 'wrapped')[c_mode]
        assume(c_mode not in (3, 4) or (vals['i_va'] and vals['i_pos'] == 0))
        reached((c_mode, c_rreq, c_ropt, c_rf, c_ireq, c_iopt, c_if), dict(mode=m, **vals))
        native(check_pair, vals, m)
    return h


def run_errors_case(case):
    """case = (declares, tentative, attr_state, meth_state, meth2_state, vclass)
    attr_state: 0 present 1 missing
    meth_state: 0 ok 1 missing 2 wrong signature 3 non-callable 4 callable-uninspectable"""
    from zope.interface import Attribute, Interface, implementer
    from zope.interface.interface import InterfaceClass
    from zope.interface.exceptions import (BrokenImplementation, BrokenMethodImplementation,
                                           DoesNotImplement, Invalid, MultipleInvalid)
    from zope.interface.verify import verifyClass, verifyObject
    declares, tentative, attr_state, m1, m2, vclass = case[:6]
    alias = case[6] if len(case) > 6 else 0

    class IBase(Interface):
        a = Attribute('an attribute')

        def m1(x):
            pass

    if alias:
        # elements named in the interface under a key that differs from the description's own __name__: the same description
        # bound to a second name, a one-word description (Attribute('T') takes 'T' as its name), an inherited method re-exported
        class ISub(IBase):
            def m2(x, y=None):
                pass
            a2 = IBase['a']
            t = Attribute('T')
            m3 = IBase['m1']
    else:
        class ISub(IBase):
            def m2(x, y=None):
                pass

    body = {}
    if attr_state == 0:
        body['a'] = 1
    # alias 1: all aliased names present; 2: a2 missing; 3: t missing; 4: m3 missing; 5: m3 with a wrong signature
    if alias and alias != 2:
        body['a2'] = 2
    if alias and alias != 3:
        body['t'] = 3

    def put(name, st, good):
        if st == 0:
            body[name] = good
        elif st == 2:
            body[name] = lambda self: None  # too few
        elif st == 3:
            body[name] = 42
        elif st == 4:
            class Callable_:
                def __call__(self, *a):
                    pass
            body[name] = Callable_()
    if vclass == 2:
        # the candidate is a class used as an object that directly provides the interface: its methods are static
        put('m1', m1, staticmethod(lambda x: None))
        put('m2', m2, staticmethod(lambda x, y=None: None))
        for k_ in ('m1', 'm2'):
            if k_ in body and not isinstance(body[k_], (staticmethod, int)) and getattr(body[k_], '__name__', '') == '<lambda>':
                body[k_] = staticmethod(lambda: None)       # "too few": no parameter at all
    else:
        put('m1', m1, lambda self, x: None)
        put('m2', m2, lambda self, x, y=None: None)
    if alias and alias != 4:
        good3 = staticmethod(lambda x: None) if vclass == 2 else (lambda self, x: None)
        bad3 = staticmethod(lambda: None) if vclass == 2 else (lambda self: None)
        body['m3'] = bad3 if alias == 5 else good3
    K = type('K', (object,), body)
    if declares and vclass == 2:
        from zope.interface import directlyProvides
        directlyProvides(K, ISub)
    elif declares:
        K = implementer(ISub)(K)
    expected = []
    if not tentative and not declares:
        expected.append(DoesNotImplement)
    if attr_state == 1 and vclass != 1:
        expected.append(BrokenImplementation)   # verifyClass cannot check plain attributes (docs/verify.rst)
    if alias in (2, 3) and vclass != 1:
        expected.append(BrokenImplementation)
    if alias == 4:
        expected.append(BrokenImplementation)
    if alias == 5:
        expected.append(BrokenMethodImplementation)
    for st in (m1, m2):
        if st == 1:
            expected.append(BrokenImplementation)
        elif st in (2, 3):
            expected.append(BrokenMethodImplementation)
    reached(case, dict(case=case, expected=[e.__name__ for e in expected]))
    try:
        (verifyClass if vclass == 1 else verifyObject)(ISub, K if vclass else K(), tentative=bool(tentative))
        got = None
    except MultipleInvalid as e:
        got = e
    except Invalid as e:
        got = e
    sig = 'C17:errors'
    if not expected:
        if got is not None:
            raise Violation('%r: expected success, got %r' % (case, got), signature=sig)
        return
    if got is None:
        raise Violation('%r: verification passed, expected %s' % (case, [e.__name__ for e in expected]), signature=sig)
    if len(expected) == 1:
        if type(got) is not expected[0]:
            raise Violation('%r: expected the single %s, got %r' % (case, expected[0].__name__, got), signature=sig)
    else:
        if type(got) is not MultipleInvalid:
            raise Violation('%r: expected MultipleInvalid of %s, got %r' % (case, [e.__name__ for e in expected], got), signature=sig)
        members = sorted(type(x).__name__ for x in got.exceptions)
        if members != sorted(e.__name__ for e in expected):
            raise Violation('%r: MultipleInvalid members %s, expected %s' % (
                case, members, sorted(e.__name__ for e in expected)), signature=sig)


def make_e_errors(params, part, nparts):
    def h(declares: int, tentative: int, attr_state: int, m1: int, m2: int, vclass: int, alias: int):
        c_m1 = pick(m1, 5)
        assume(c_m1 % nparts == part)
        case = (pick(declares, 2), pick(tentative, 2), pick(attr_state, 2), c_m1, pick(m2, 5), pick(vclass, 3), pick(alias, 6))
        native(run_errors_case, case)
    return h


def run_diamond_case(case):
    """The description verified for a name is the one the interface resolves for it (I[name], nearest definer in __iro__): a diamond whose
    common root defines store(key) and one middle interface redefines it as store(key, value)."""
    from zope.interface import Interface, implementer
    from zope.interface.exceptions import BrokenMethodImplementation, Invalid, MultipleInvalid
    from zope.interface.verify import verifyClass, verifyObject
    override_first, cand_args, vclass, third = case

    class IBase(Interface):
        def store(key):
            pass

    class IPlain(IBase):
        pass

    class IOver(IBase):
        def store(key, value):
            pass

    class IThird(Interface):
        def other():
            pass
    bases = (IOver, IPlain) if override_first else (IPlain, IOver)
    if third:
        bases = bases + (IThird,)
    from zope.interface.interface import InterfaceClass
    IBoth = InterfaceClass('IBoth', bases, {})
    want = len(IBoth['store'].getSignatureInfo()['required'])
    if want != 2 or IBoth['store'] is not IOver['store']:
        raise Violation('harness: IBoth[store] is not the overriding definition', signature='C17:harness')
    ns = {}
    exec('def store(self, %s): pass\ndef other(self): pass' % ', '.join('a%d' % i for i in range(cand_args)), ns)
    K = implementer(IBoth)(type('K', (object,), dict(ns)))
    reached(case, dict(case=case))
    try:
        (verifyClass if vclass else verifyObject)(IBoth, K if vclass else K())
        got = None
    except (Invalid, MultipleInvalid) as e:
        got = e
    if cand_args == want and got is not None:
        raise Violation('IBoth%s with store redefined by %s: a candidate store(self, key, value) conforming to IBoth[\'store\'] is rejected: %r' % (
            tuple(b.__name__ for b in bases), 'the first base' if override_first else 'the second base', got), signature='C17:diamond')
    if cand_args != want and not isinstance(got, BrokenMethodImplementation):
        raise Violation('IBoth%s: a candidate store with %d argument(s) against IBoth[\'store\'](key, value): %r, BrokenMethodImplementation expected' % (
            tuple(b.__name__ for b in bases), cand_args, got), signature='C17:diamond')


def make_e_diamond(params, part, nparts):
    def h(f: int, a: int, v: int, t: int):
        case = (pick(f, 2), pick(a, 3) + 1, pick(v, 2), pick(t, 2))
        native(run_diamond_case, case)
    return h


def run_rebased_case(case):
    """Verification follows the interface's *current* ancestry: a chain IDerived(IMid(IBase)); an ancestor (IMid or IBase, never IDerived
    itself) gains / loses the base IExtra, which adds an attribute, a method, or a wider signature for an inherited method; the
    candidate is verified before, after the gain and after the loss (each optionally preceded by an earlier verification)."""
    from zope.interface import Attribute, Interface, implementer
    from zope.interface.exceptions import (BrokenImplementation, BrokenMethodImplementation, Invalid, MultipleInvalid)
    from zope.interface.interface import InterfaceClass
    from zope.interface.verify import verifyClass, verifyObject
    level, extra_kind, vclass, warm, has_it = case

    class IBase(Interface):
        def ping(a):
            pass

    class IMid(IBase):
        pass

    class IDerived(IMid):
        pass
    if extra_kind == 0:
        class IExtra(Interface):
            extra = Attribute('an attribute')
    elif extra_kind == 1:
        class IExtra(Interface):
            def more(x):
                pass
    else:
        class IExtra(Interface):
            def ping(a, b):
                pass
    body = 'def ping(self, a%s): pass\n' % (', b' if (has_it and extra_kind == 2) else '')
    if has_it and extra_kind == 1:
        body += 'def more(self, x): pass\n'
    ns = {}
    exec(body, ns)
    if has_it and extra_kind == 0:
        ns['extra'] = 1
    K = implementer(IDerived)(type('K', (object,), dict(ns)))
    target = [IMid, IBase][level]
    old_bases = target.__bases__
    verify = (lambda: verifyClass(IDerived, K)) if vclass else (lambda: verifyObject(IDerived, K()))

    def outcome():
        try:
            verify()
            return None
        except MultipleInvalid as e:
            return sorted(type(x).__name__ for x in e.exceptions)
        except Invalid as e:
            return [type(e).__name__]
    reached(case, dict(case=case))
    # with has_it and the wider ping(a, b): before the gain the interface says ping(a) and the candidate requires one more -> rejected
    before_exp = ['BrokenMethodImplementation'] if (has_it and extra_kind == 2) else None
    if warm & 1:
        got = outcome()
        if got != before_exp:
            raise Violation('before any re-basing: verification gives %r, expected %r (case %r)' % (got, before_exp, case), signature='C17:rebased:before')
    # the ancestor gains IExtra in front of its bases (so that IExtra's ping wins for extra_kind 2)
    target.__bases__ = (IExtra,) + tuple(b for b in old_bases if b is not Interface)
    if extra_kind == 0:
        exp = None if (has_it or vclass) else ['BrokenImplementation']       # verifyClass cannot check plain attributes
    elif extra_kind == 1:
        exp = None if has_it else ['BrokenImplementation']
    elif level == 0:
        exp = None if has_it else ['BrokenMethodImplementation']      # IExtra now precedes IBase in IDerived's resolution order
    else:
        exp = before_exp              # IBase defines ping itself and precedes its own new base: nothing changes for ping
    got = outcome()
    if got != exp:
        raise Violation('%s after %s.__bases__ gained IExtra (%s)%s: verification of IDerived gives %r, the current ancestry demands %r' % (
            'verifyClass' if vclass else 'verifyObject', target.__name__, ['an attribute', 'a method', 'a wider ping(a, b)'][extra_kind],
            ' (verified once before)' if warm & 1 else '', got, exp), signature='C17:rebased:gain')
    if warm & 2:
        outcome()
    target.__bases__ = old_bases
    got = outcome()
    if got != before_exp:
        raise Violation('after %s.__bases__ lost IExtra again: verification gives %r, expected %r (case %r)' % (target.__name__, got, before_exp, case),
                        signature='C17:rebased:loss')


def make_e_rebased(params, part, nparts):
    def h(l: int, k: int, v: int, w: int, i: int):
        case = (pick(l, 2), pick(k, 3), pick(v, 2), pick(w, 4), pick(i, 2))
        native(run_rebased_case, case)
    return h


_ENC = ['zope.interface.verify:_verify', 'zope.interface.verify:_verify_element',
        'zope.interface.verify:_incompat', 'zope.interface.interface:fromFunction',
        'zope.interface.exceptions:MultipleInvalid']

HARNESSES = [
    Harness('b_incompat', kind='custom', run=run_b_incompat, impls=('py',),
            tiers=dict(quick={}, thorough={}),
            encoded=['zope.interface.verify:_incompat'],
            bounds='none on the eight arity variables (unbounded non-negative integers, r_req<=r_pos, i_req<=i_pos); '
                   'z3 LIA with one universally quantified obligation; 60 s solver timeout; translator validated on a 9216-point grid',
            outside='everything in verifyObject except the arity decision (covered by e_pairs/e_errors); parameter names; '
                    'keyword-only / positional-only implementation parameters',
            oracle='forall k>=0, kw: admits_required(k,kw) -> binds_implemented(k,kw)',
            assumptions=['getSignatureInfo invariants: 0<=len(required)<=len(positional); varargs/kwargs are None or a non-empty str']),
    Harness('e_pairs', make_e_pairs, kind='E', impls=('py',),
            tiers=dict(quick=dict(budget_s=150, parts=16, params=dict(max_req=2, max_opt=2)),
                       thorough=dict(budget_s=900, parts=16, params=dict(max_req=3, max_opt=3))),
            encoded=_ENC,
            bounds='required<=2(3), optional<=2(3), *args, **kw, a defaulted keyword-only parameter on both sides (5184 pairs quick) x {function attribute, bound method, verifyClass, methods whose self is collected by *args, @staticmethod through the instance and through verifyClass, a functools.wraps-decorated bound method}',
            outside='required keyword-only and positional-only parameters, builtins, parameter names',
            oracle='inspect.signature(impl).bind on every admitted call shape (arities req..pos, +1/+4 with *args, one foreign keyword with **kw)'),
    Harness('e_errors', make_e_errors, kind='E', impls=('py',),
            tiers=dict(quick=dict(budget_s=60, parts=5), thorough=dict(budget_s=120, parts=5)),
            encoded=_ENC,
            bounds='every subset of {undeclared, tentative, missing attribute, method missing/wrong signature/non-callable/uninspectable x2 (one inherited)} x {no aliased elements, elements whose key differs from the description name (second name for one description, one-word Attribute description, re-exported inherited method): all present / one missing / wrong signature} x verifyObject(instance) / verifyClass / verifyObject(class that directly provides the interface)',
            oracle='exact exception type; MultipleInvalid members as a multiset of types',
            assumptions=['verifyClass does not check presence of plain attributes (docs/verify.rst)']),
    Harness('e_rebased', make_e_rebased, kind='E', impls=('py',),
            tiers=dict(quick=dict(budget_s=30, parts=1), thorough=dict(budget_s=60, parts=1)),
            encoded=_ENC + ['zope.interface.interface:InterfaceClass.namesAndDescriptions'],
            bounds='chain IDerived(IMid(IBase)); IMid or IBase gains and loses a base that adds an attribute / a method / a wider signature of an '
                   'inherited method; candidate with or without it; verifyObject / verifyClass; with or without an earlier verification before each step',
            oracle='the outcome (None, or the sorted failure types) the current ancestry demands, before, after the gain, after the loss'),
    Harness('e_diamond', make_e_diamond, kind='E', impls=('py',),
            tiers=dict(quick=dict(budget_s=30, parts=1), thorough=dict(budget_s=30, parts=1)),
            encoded=_ENC + ['zope.interface.interface:InterfaceClass.namesAndDescriptions'],
            bounds='diamond interface hierarchy (root defines store(key), one middle interface redefines store(key, value), listed first or '
                   'second, with or without a third unrelated base) x candidate with 1..3 arguments x verifyObject / verifyClass',
            oracle='the description the interface resolves for the name (I[name]); exact exception type'),
]

MANIFEST = {
    'engine': 'astsmt+symx',
    'technique': 'z3 encoding generated from the AST of verify._incompat (unbounded LIA, quantified spec) + '
                 'symbolic execution (CrossHair engine) of verifyObject/verifyClass on solver-enumerated signature pairs',
    'text': 'The arity decision is decided by z3 for all non-negative integer arities (unsat of the negated equivalence with the '
            'call-shape specification); the surrounding verifyObject/verifyClass logic is run on every signature pair and error '
            'subset inside the bounds with inspect.signature.bind as oracle. A solver verdict over the arity model, bounded-'
            'exhaustive for the rest.',
    'note': 'Trusted: z3; the AST translator (validated on every run against the real function on 9216 points); inspect.signature.',
}
