"""C12 Interfaces have a total, hash-consistent, process-independent order."""
import json
import os
import subprocess
import time

from vlib.harness import Harness
from vlib.symx import Violation, assume, native, pick, reached


class _Foreign:
    """No __name__/__module__ instance attributes reachable: comparison must be NotImplemented."""
    __slots__ = ()

    def __getattr__(self, name):
        raise AttributeError(name)


def _mk(kind, name, module, bare=False):
    from zope.interface.interface import InterfaceBase, InterfaceClass
    from zope.interface.declarations import Implements
    if kind == 0:
        if bare:
            # S tier: a real InterfaceClass instance initialised by the real
            # InterfaceBase.__init__ only.  Specification.__init__ (bases, implied set) is
            # skipped: it inserts the object into dicts, i.e. hashes it, which would force
            # the symbolic strings to concrete values before any comparison runs.
            ob = InterfaceClass.__new__(InterfaceClass)
            InterfaceBase.__init__(ob, name, module)
            return ob
        return InterfaceClass(name, (), {}, __module__=module)
    inst = Implements.named(name)
    return inst


def _key(kind, name, module):
    return (name, module if kind == 0 else 'zope.interface.declarations')


def _lt(k1, k2):
    # lexicographic order on (name, module), stated without tuple comparison
    return k1[0] < k2[0] or (k1[0] == k2[0] and k1[1] < k2[1])


def check_pair(a, b, ka, kb, kinds, hashes=True):
    """All binary laws for one ordered pair; k* are the (name, module) keys."""
    eqk = ka[0] == kb[0] and ka[1] == kb[1]
    lt, gt = _lt(ka, kb), _lt(kb, ka)
    both_ifaces = kinds == (0, 0)
    exp_eq = eqk if both_ifaces else (a is b)
    got = dict(lt=a < b, le=a <= b, gt=a > b, ge=a >= b, eq=a == b, ne=a != b)
    exp = dict(lt=lt, le=lt or eqk, gt=gt, ge=gt or eqk, eq=exp_eq, ne=not exp_eq)
    for op in ('lt', 'le', 'gt', 'ge', 'eq', 'ne'):
        g = got[op]
        if g is NotImplemented or bool(g) != bool(exp[op]):
            raise Violation('%s on keys %r, %r (kinds %r): got %r expected %r' % (op, ka, kb, kinds, g, exp[op]),
                            signature='C12:order:%s' % op)
    # reflected operators
    if bool(b > a) != bool(got['lt']) or bool(b >= a) != bool(got['le']) or bool(b == a) != bool(got['eq']) \
            or bool(b != a) != bool(got['ne']):
        raise Violation('reflected comparison disagrees on keys %r, %r' % (ka, kb), signature='C12:reflected')
    # trichotomy on the key order
    if (1 if got['lt'] else 0) + (1 if eqk else 0) + (1 if got['gt'] else 0) != 1:
        raise Violation('trichotomy broken on keys %r, %r' % (ka, kb), signature='C12:trichotomy')
    if hashes and got['eq'] and hash(a) != hash(b):
        raise Violation('equal but hash differs: %r, %r' % (ka, kb), signature='C12:hash')


def check_single(a):
    if not (a < None) or (a > None) or not (a <= None) or (a >= None) or a == None or not (a != None):  # noqa: E711
        raise Violation('None must sort after every interface', signature='C12:none')
    if not (None > a) or (None < a):
        raise Violation('reflected None comparison', signature='C12:none')
    f = _Foreign()
    for op in ('__lt__', '__le__', '__gt__', '__ge__'):
        if getattr(a, op)(f) is not NotImplemented:
            raise Violation('%s(foreign) is not NotImplemented' % op, signature='C12:foreign')
    if (a == f) or not (a != f):
        raise Violation('equal to a foreign object', signature='C12:foreign')
    if not (a == a) or (a != a) or (a < a) or not (a <= a):
        raise Violation('reflexivity', signature='C12:reflexive')
    if type(a).__name__ == 'InterfaceClass':
        # the order is by the (name, module) key of *any* operand that has one: with a look-alike of equal key, <= and >= both hold, so
        # == must hold too and != must not (antisymmetry; != is the negation of ==), in both directions
        d = _Lookalike(a.__name__, a.__module__)
        got = dict(le=a <= d, ge=a >= d, lt=a < d, gt=a > d, eq=a == d, ne=a != d, req=d == a, rne=d != a)
        if not (got['le'] is True and got['ge'] is True and got['lt'] is False and got['gt'] is False and got['eq'] is True
                and got['ne'] is False and got['req'] is True and got['rne'] is False):
            raise Violation('interface vs a foreign object with the same (__name__, __module__) and no comparison methods: %r; <= and >= '
                            'hold, so == must hold and != must not (also reflected)' % (got,), signature='C12:lookalike')
        d2 = _Lookalike(a.__name__ + 'x', a.__module__)
        if (a == d2) is not False or (a != d2) is not True or not (a < d2) or (a > d2):
            raise Violation('interface vs a foreign object with a larger name: ==%r !=%r <%r >%r' % (a == d2, a != d2, a < d2, a > d2),
                            signature='C12:lookalike')
    # a foreign object without name/module that implements its own (in)equality: the interface must defer to it
    # (__eq__/__ne__ return NotImplemented), so that != stays the negation of == and reflected comparisons agree
    h = _Handle()
    if type(a).__name__ == 'InterfaceClass':
        if (a == h) is not True or (a != h) is not False or (h == a) is not True or (h != a) is not False:
            raise Violation('interface vs an object with its own __eq__/__ne__: == gives %r, != gives %r (reflected %r / %r); '
                            '!= must be the negation of ==' % (a == h, a != h, h == a, h != a), signature='C12:foreign-eq')


class _Lookalike:
    """A foreign object that carries the same __name__ / __module__ as an interface and no comparison methods of its own (a transparent
    proxy, a class of the same name in the same module - the case the _compare docstring names)."""

    def __init__(self, name, module):
        self.__name__ = name
        self.__module__ = module


class _Handle:
    __slots__ = ()
    __hash__ = None

    def __eq__(self, other):
        return True

    def __ne__(self, other):
        return False

    def __getattr__(self, name):
        raise AttributeError(name)


class _HashStub:
    """Stub for the builtin `hash` inside zope.interface.interface: an uninterpreted
    function is modelled by its argument (equal arguments <=> equal results)."""

    def __enter__(self):
        import zope.interface.interface as zi
        self.zi = zi
        zi.hash = lambda x: ('H', x)
        return self

    def __exit__(self, *a):
        del self.zi.hash


def make_s_pairs(params, part, nparts):
    MAXL = params.get('maxlen', 2)

    def h(n1: str, m1: str, n2: str, m2: str, k1: int, k2: int):
        kinds = (pick(k1, 2), pick(k2, 2))
        # CrossHair 0.0.110 mis-models `symbolic_str > longer_concrete_str` when the
        # symbolic one is a proper prefix (found by a non-reproducing counterexample).
        # Mixed kinds would compare a symbolic module with the constant module of
        # Implements, so the S tier keeps both operands of one kind (symbolic vs symbolic
        # is modelled correctly); mixed pairs are covered on concrete strings by e_pool.
        assume(kinds[0] == kinds[1])
        l1, l2 = len(n1), len(n2)
        # partition on kinds and name lengths (deterministic decode of the lengths)
        c1, c2 = pick(l1, MAXL + 1), pick(l2, MAXL + 1)
        assume(l1 == c1 and l2 == c2)
        assume(((kinds[0] * 2 + kinds[1]) * (MAXL + 1) ** 2 + c1 * (MAXL + 1) + c2) % nparts == part)
        assume(len(m1) <= MAXL and len(m2) <= MAXL)
        assume(' ' not in n1 and ' ' not in n2)
        a = _mk(kinds[0], n1, m1, bare=True)
        b = _mk(kinds[1], n2, m2, bare=True)
        ka, kb = _key(kinds[0], n1, m1), _key(kinds[1], n2, m2)
        reached(None, dict(kinds=kinds, a=ka, b=kb))
        with _HashStub():
            check_pair(a, b, ka, kb, kinds)
            # the memoised hash is consistent with a fresh computation
            if kinds[0] == 0 and (a.__hash__() != a.__hash__() or a.__hash__() != ('H', (n1, m1))):
                raise Violation('hash is not hash((name, module)) / memo inconsistent', signature='C12:hash')
        check_single(a)
    return h


def make_s_triples(params, part, nparts):
    MAXL = params.get('maxlen', 1)

    def h(n1: str, m1: str, n2: str, m2: str, n3: str, m3: str):
        for s in (n1, m1, n2, m2, n3, m3):
            assume(len(s) <= MAXL)
        c = pick(len(n1), MAXL + 1) * (MAXL + 1) + pick(len(n2), MAXL + 1)
        assume(c % nparts == part)
        assume(' ' not in n1 and ' ' not in n2 and ' ' not in n3)
        a, b, c_ = _mk(0, n1, m1, True), _mk(0, n2, m2, True), _mk(0, n3, m3, True)
        reached(None, dict(a=(n1, m1), b=(n2, m2), c=(n3, m3)))
        if a < b and b < c_ and not (a < c_):
            raise Violation('transitivity of < broken', signature='C12:transitive')
        if a <= b and b <= c_ and not (a <= c_):
            raise Violation('transitivity of <= broken', signature='C12:transitive')
        if a == b and b == c_ and not (a == c_):
            raise Violation('transitivity of == broken', signature='C12:transitive')
        if a <= b and b <= a and not (a == b):
            raise Violation('antisymmetry broken', signature='C12:antisymmetry')
    return h


POOL = ['', 'a', 'b', 'ab', 'a.b', 'é', 'B', 'a\U0001f600']


def _fresh(s):
    t = ''.join([c for c in s])
    return t


def run_concrete_pair(case):
    (i1, j1, i2, j2, k1, k2) = case
    # fresh string objects: equal names/modules of the two operands must not be the *same* object
    # (identifier-like literals are interned; names built at run time are not)
    n1, m1, n2, m2 = _fresh(POOL[i1]), _fresh(POOL[j1]), _fresh(POOL[i2]), _fresh(POOL[j2])
    a, b = _mk(k1, n1, m1), _mk(k2, n2, m2)
    ka, kb = _key(k1, n1, m1), _key(k2, n2, m2)
    check_pair(a, b, ka, kb, (k1, k2), hashes=True)
    check_single(a)
    if k1 == 0 and hash(a) != hash((n1, m1)):
        raise Violation('hash(interface) != hash((name, module)) for %r' % (ka,), signature='C12:hash')
    # sorting a mixed collection is deterministic: by key, None last
    c = _mk(0, n2, m1)
    coll = [b, None, a, c]
    s = sorted(coll, key=lambda x: (1, ('', '')) if x is None else (0, (x.__name__, x.__module__)))
    try:
        s2 = sorted(coll)
    except TypeError as e:
        raise Violation('sorted() raised %r' % (e,), signature='C12:sorted')
    if [None if x is None else (x.__name__, x.__module__) for x in s2] != \
            [None if x is None else (x.__name__, x.__module__) for x in s]:
        raise Violation('sorted() order differs from key order for %r %r' % (ka, kb), signature='C12:sorted')


def make_e_pool(params, part, nparts):
    P = params.get('pool', 5)

    def h(i1: int, j1: int, i2: int, j2: int, k1: int, k2: int):
        c_i1 = pick(i1, P)
        c_i2 = pick(i2, P)
        assume((c_i1 * P + c_i2) % nparts == part)
        case = (c_i1, pick(j1, P), c_i2, pick(j2, P), pick(k1, 2), pick(k2, 2))
        reached(case, dict(a=(POOL[case[0]], POOL[case[1]]), b=(POOL[case[2]], POOL[case[3]]), kinds=case[4:]))
        native(run_concrete_pair, case)
    return h


def run_x_process(tier, ctx):
    """Cross-process / cross-implementation determinism: the same mixed collection is
    sorted under two hash seeds and both builds; the key sequences must be identical."""
    t0 = time.time()
    agg = dict(harness='x_process', impl='py+c', kind='E', paths=0, reached=0, distinct=0, unknown=0,
               solver_queries=0, solver_s=0.0, samples=[], errors=[], exhaustive=True)
    out = dict(agg=agg, violations=[], harness_errors=[])
    prog = r'''
import sys, json
sys.path.insert(0, %r)
from vlib import boot
boot.select(sys.argv[1])
from props.C12 import POOL, _mk
import itertools
objs = []
for n in POOL:
    for m in POOL[:4]:
        objs.append(_mk(0, n, m))
    objs.append(_mk(1, n, ''))
objs.append(None)
res = sorted(objs)
out = [None if x is None else (type(x).__name__, x.__name__, x.__module__) for x in res]
hs = [hash(x) == hash((x.__name__, x.__module__)) for x in objs if x is not None and type(x).__name__ == 'InterfaceClass']
# names containing a space are outside the ordering claim (Element.__init__ turns them into the doc string), but equal objects must
# still hash equal: two such interfaces of one module compare equal
s1, s2 = _mk(0, 'first one', 'spaced'), _mk(0, 'second one', 'spaced')
hs.append((not (s1 == s2)) or (hash(s1) == hash(s2) and {s1: 1}.get(s2) == 1))
print(json.dumps([out, all(hs)]))
''' % ctx['root']
    results = {}
    for impl in ('py', 'c'):
        for seed in ('0', '12345'):
            env = dict(ctx['env'])
            env['PYTHONHASHSEED'] = seed
            r = subprocess.run([ctx['py'], '-c', prog, impl], env=env, capture_output=True, text=True, cwd=ctx['root'])
            agg['paths'] += 1
            if r.returncode != 0:
                out['harness_errors'].append('x_process %s/%s failed: %s' % (impl, seed, r.stderr[-800:]))
                continue
            results[(impl, seed)] = json.loads(r.stdout.strip().splitlines()[-1])
            agg['reached'] += 1
    vals = list(results.values())
    if vals:
        agg['distinct'] = len(vals)
        agg['samples'].append(dict(sorted_head=vals[0][0][:5], runs=sorted('%s/seed=%s' % k for k in results)))
        for k, v in results.items():
            if v[0] != vals[0][0] or not v[1]:
                rpath = os.path.join(ctx['evdir'], 'replays', 'C12-x_process.json')
                os.makedirs(os.path.dirname(rpath), exist_ok=True)
                json.dump(dict(property='C12', harness='x_process', note='sorted order differs across runs',
                               runs={'%s/%s' % kk: vv for kk, vv in results.items()}), open(rpath, 'w'), indent=1)
                out['violations'].append(dict(harness='x_process', impl=k[0], signature='C12:cross-process',
                                              msg='sorted() of a mixed collection differs between %r and %r (or hash != hash((name,module)))' % (k, list(results)[0]),
                                              replay=rpath))
                break
    agg['cpu_s'] = round(time.time() - t0, 2)
    return out



# ---------------------------------------------------------------------------------------------------------------
# Engine C (functional mode): IB_richcompare / IB__hash__ from the LLVM IR of the current C source, z3 strings
# ---------------------------------------------------------------------------------------------------------------

def _c_struct_fields(name):
    """Field order of `typedef struct {...} <name>;` read from the current C source (so the IR indices follow edits)."""
    import re
    src = open(os.path.join(os.environ.get('VP_REPO', '/repo'), 'src', 'zope', 'interface', '_zope_interface_coptimizations.c')).read()
    m = re.search(r'typedef struct\s*\{([^{}]*)\}\s*%s;' % name, src)
    out = []
    for decl in m.group(1).split(';'):
        decl = decl.strip()
        if decl:
            out.append(re.split(r'[\s*]+', decl)[-1])
    return out


def _z3str_to_py(v):
    import re
    s = v.as_string()
    return re.sub(r'\\u\{([0-9a-fA-F]+)\}', lambda m: chr(int(m.group(1), 16)), s)


_OPS = ['<', '<=', '==', '!=', '>', '>=']        # Py_LT .. Py_GE = 0..5


def _ref_cmp(z3, n1, m1, n2, m2):
    """(name, module) tuple order, written from the property statement (not from the C code)."""
    lt = z3.Or(n1 < n2, z3.And(n1 == n2, m1 < m2))
    eq = z3.And(n1 == n2, m1 == m2)
    return {0: lt, 1: z3.Or(lt, eq), 2: eq, 3: z3.Not(eq), 4: z3.And(z3.Not(lt), z3.Not(eq)), 5: z3.Not(lt)}


class _CmpWorld:
    """Environment of IB_richcompare: self is an interface with symbolic name/module strings; `other` is decided per path."""

    def __init__(self, z3, irfun):
        self.z3, self.irfun = z3, irfun
        P = irfun.P
        self.fields = _c_struct_fields('IB')
        self.NONE = P('Py_None', 'none', immortal=True)
        self.TRUE = P('Py_True', 'bool', immortal=True)
        self.FALSE = P('Py_False', 'bool', immortal=True)
        self.NOTIMPL = P('Py_NotImplemented', 'notimpl', immortal=True)
        self.ATTRERR = P('PyExc_AttributeError', 'exc', immortal=True)
        self.OTHERERR = P('SomeOtherException', 'exc', immortal=True)
        self.S_NAME = P("'__name__'", 'attrname', immortal=True)
        self.S_MOD = P("'__module__'", 'attrname', immortal=True)
        self.IBTYPE = P('InterfaceBase type', 'type', immortal=True)
        self.globals = {
            '&_Py_NoneStruct': self.NONE, '&_Py_TrueStruct': self.TRUE, '&_Py_FalseStruct': self.FALSE,
            '&_Py_NotImplementedStruct': self.NOTIMPL, 'PyExc_AttributeError': self.ATTRERR,
            'str__name__': self.S_NAME, 'str__module__': self.S_MOD,
        }
        self.n1, self.m1, self.n2, self.m2 = z3.Strings('n1 m1 n2 m2')
        self.op = z3.Int('op')
        w = self
        self.stubs = dict(irfun.COMMON_STUBS)
        self.stubs.update({
            'Py_TYPE': lambda ex, a, site: a[0].type,
            '_get_interface_base_class': lambda ex, a, site: w.IBTYPE,
            'PyObject_TypeCheck': lambda ex, a, site: 1 if getattr(a[0], 'kind', None) == 'IB' else 0,
            'PyObject_GetAttr': self.getattr_, 'PyObject_RichCompareBool': self.rcb,
        })

    STUB_DOC = {
        'Py_TYPE': 'the type object of the operand',
        '_get_interface_base_class': 'module state lookup: returns the InterfaceBase type (assumed not to fail: the module is loaded)',
        'PyObject_TypeCheck': '1 iff the other operand is an InterfaceBase instance (decided per path)',
        'PyObject_GetAttr': "foreign operand: per attribute a decision among {a str (new reference), raises AttributeError, raises another exception}",
        'PyObject_RichCompareBool': 'on two exact str objects: identical objects -> 1 for ==, 0 for !=; otherwise the z3 string comparison '
                                    '(str.<, str.<=, =) selected by op; never fails and runs no Python code for exact str',
    }

    def mkstr(self, ex, label, term):
        return ex.track(self.irfun.P(label, 'str', s=term))

    def setup(self, ex):
        P = self.irfun.P
        z3 = self.z3
        ex.assume(z3.And(self.op >= 0, self.op <= 5))
        me = ex.track(P('self', 'IB', type=P('type(self)', 'type', immortal=True)))
        ex.me = me
        me.fields[('%struct.IB', (self.fields.index('__name__'),))] = self.mkstr(ex, 'self.__name__', self.n1)
        me.fields[('%struct.IB', (self.fields.index('__module__'),))] = self.mkstr(ex, 'self.__module__', self.m1)
        for o in (self.NONE, self.TRUE, self.FALSE, self.NOTIMPL):
            o.frame = 0               # immortal singletons (3.12: Py_RETURN_TRUE does not count): not part of the reference balance
        kind = ex.decide('other operand', ['self', 'None', 'another interface', 'foreign object'])
        ex.other_kind = kind
        if kind == 'self':
            other = me
        elif kind == 'None':
            other = self.NONE
        elif kind == 'another interface':
            other = ex.track(P('other', 'IB', type=me.type))
            other.fields[('%struct.IB', (self.fields.index('__name__'),))] = self.mkstr(ex, 'other.__name__', self.n2)
            other.fields[('%struct.IB', (self.fields.index('__module__'),))] = self.mkstr(ex, 'other.__module__', self.m2)
        else:
            other = ex.track(P('foreign', 'foreign', type=P('type(foreign)', 'type', immortal=True)))
        ex.attr_outcomes = []
        return [me, other, self.op]

    def field(self, ex, base, struct, path):
        raise self.irfun.Inconclusive('unmodelled field %s%r of %r' % (struct, path, base))

    def getattr_(self, ex, a, site):
        ob, name = a
        if ob.kind != 'foreign':
            raise self.irfun.Inconclusive('GetAttr on %r' % ob)
        out = ex.decide('foreign.%s' % name.label, ['a str', 'raises AttributeError', 'raises another exception'])
        ex.attr_outcomes.append((name.label, out))
        ex.events.append(('getattr', name.label, out))
        if out == 'a str':
            s = self.mkstr(ex, 'foreign.%s' % name.label, self.n2 if name is self.S_NAME else self.m2)
            s.frame += 1              # new reference
            return s
        ex.err = self.ATTRERR if 'AttributeError' in out else self.OTHERERR
        return None

    def rcb(self, ex, a, site):
        z3 = self.z3
        x, y, op = a
        if getattr(x, 'kind', None) != 'str' or getattr(y, 'kind', None) != 'str':
            raise self.irfun.Inconclusive('RichCompareBool on non-str %r %r' % (x, y))
        ex.events.append(('compare', x.label, y.label, op if isinstance(op, int) else 'op'))
        if x is y:
            table = {0: False, 1: True, 2: True, 3: False, 4: False, 5: True}
            cmps = {k: z3.BoolVal(v) for k, v in table.items()}
        else:
            cmps = {0: x.s < y.s, 1: x.s <= y.s, 2: x.s == y.s, 3: x.s != y.s, 4: y.s < x.s, 5: y.s <= x.s}
        if isinstance(op, int):
            return z3.If(cmps[op], z3.IntVal(1), z3.IntVal(0))
        t = z3.IntVal(0)
        for k in range(5, -1, -1):
            t = z3.If(op == k, z3.If(cmps[k], z3.IntVal(1), z3.IntVal(0)), t)
        return t


class _HashWorld:
    def __init__(self, z3, irfun):
        self.z3, self.irfun = z3, irfun
        P = irfun.P
        self.fields = _c_struct_fields('IB')
        self.ATTRERR = P('PyExc_AttributeError', 'exc', immortal=True)
        self.globals = {'PyExc_AttributeError': self.ATTRERR}
        self.n, self.m = z3.Strings('n m')
        self.cached = z3.Int('cached')
        self.H = z3.Function('tuple_hash', z3.StringSort(), z3.StringSort(), z3.IntSort())
        self.stubs = dict(irfun.COMMON_STUBS)
        self.stubs.update({'PyTuple_Pack': self.pack, 'PyObject_Hash': self.hash_})

    STUB_DOC = {
        'PyTuple_Pack': 'new tuple holding the given objects (allocation failure outside the claim)',
        'PyObject_Hash': 'hash of a 2-tuple of str = an uninterpreted function of the two strings (cannot fail for str items)',
    }

    def setup(self, ex):
        P = self.irfun.P
        me = ex.track(P('self', 'IB'))
        ex.me = me
        for nm, term in (('__name__', self.n), ('__module__', self.m)):
            c = ex.decide('self.%s' % nm, ['set', 'NULL (deleted)'])
            me.fields[('%struct.IB', (self.fields.index(nm),))] = ex.track(P('self.' + nm, 'str', s=term)) if c == 'set' else None
        me.fields[('%struct.IB', (self.fields.index('_v_cached_hash'),))] = self.cached
        return [me]

    def field(self, ex, base, struct, path):
        raise self.irfun.Inconclusive('unmodelled field %s%r of %r' % (struct, path, base))

    def pack(self, ex, a, site):
        t = ex.track(self.irfun.P('tuple', 'tuple', items=a[1:]))
        t.frame += 1
        return t

    def hash_(self, ex, a, site):
        t = a[0]
        if getattr(t, 'kind', None) != 'tuple' or len(t.items) != 2 or any(getattr(i, 'kind', None) != 'str' for i in t.items):
            raise self.irfun.Inconclusive('PyObject_Hash of %r' % (t,))
        ex.events.append(('hash', t.items[0].label, t.items[1].label))
        return self.H(t.items[0].s, t.items[1].s)


def run_ir_compare(tier, ctx):
    import shutil
    import z3
    from vlib import irfun
    t0 = time.time()
    agg = dict(harness='ir_compare', impl='c', kind='IR', paths=0, reached=0, distinct=0, unknown=0, solver_queries=0, solver_s=0.0,
               samples=[], errors=[], exhaustive=False, obligations=[])
    out = dict(agg=agg, violations=[], harness_errors=[], replays_attempted=0, replays_reproduced=0)
    try:
        text, wd = irfun.build_ir()
    except Exception as e:
        out['harness_errors'].append('ir_compare: cannot produce the IR: %s' % e)
        return out
    try:
        funcs = irfun.parse(text)
        for fn in ('IB_richcompare', 'IB__hash__'):
            if fn not in funcs:
                out['harness_errors'].append('ir_compare: %s not found in the IR (renamed?)' % fn)
                return out
        w = _CmpWorld(z3, irfun)
        ex = irfun.FunExec(funcs, 'IB_richcompare', w)
        sums = ex.run_all(budget_s=120)
        agg['paths'] += ex.stats['paths']
        agg['solver_queries'] += ex.stats['queries']
        agg['solver_s'] += ex.stats['solver_s']
        agg['unknown'] += ex.stats.get('n_inconclusive', 0)
        for inc in ex.stats['inconclusive'][:3]:
            agg['errors'].append('inconclusive: %s' % inc['reason'][:300])
        exhausted = bool(ex.stats.get('exhausted')) and not ex.stats.get('n_inconclusive')
        bound_note = []

        def solve(name, *conds, strings=()):
            """sat -> model, unsat -> None; unknown -> retried with |s| <= 4 (recorded); still unknown -> inconclusive."""
            s = z3.Solver()
            s.set('timeout', 30000)
            s.add(*conds)
            q0 = time.perf_counter()
            r = s.check()
            agg['solver_queries'] += 1
            bounded = False
            if r == z3.unknown:
                s.add(*[z3.Length(x) <= 4 for x in strings])
                r = s.check()
                agg['solver_queries'] += 1
                bounded = True
                bound_note.append(name)
            agg['solver_s'] += time.perf_counter() - q0
            agg['obligations'].append(dict(name=name, result=str(r), bounded_to_len4=bounded))
            if r == z3.unknown:
                agg['unknown'] += 1
                return 'unknown'
            return s.model() if r == z3.sat else None

        strs = (w.n1, w.m1, w.n2, w.m2)
        nospace = [z3.Not(z3.Contains(x, z3.StringVal(' '))) for x in strs]
        found = []          # (description, model or None)
        kinds = {}
        for k, s in enumerate(sums):
            kind = s.decisions[0].split(' -> ')[1]
            kinds.setdefault(kind, []).append(s)
            pcs = list(s.pc)
            tag = 'path %d (%s)' % (k, '; '.join(s.decisions)[:160])
            if isinstance(s.ret, tuple) and s.ret[0] == 'DEFECT':
                found.append((tag + ': ' + s.ret[1], None, s))
                continue
            if s.balance:
                found.append((tag + ': unbalanced references at return %r' % s.balance, None, s))
                continue
            if kind in ('self', 'another interface') or (kind == 'foreign object' and [o for _, o in s_attr(s)] == ['a str', 'a str']):
                n2, m2 = (w.n1, w.m1) if kind == 'self' else (w.n2, w.m2)
                ref = _ref_cmp(z3, w.n1, w.m1, n2, m2)
                want = z3.Or(*[z3.And(w.op == kk, ref[kk]) for kk in range(6)])
                if s.ret is w.TRUE:
                    bad = z3.Not(want)
                elif s.ret is w.FALSE:
                    bad = want
                else:
                    found.append((tag + ': returns %r (pending exception %r) for two operands with str name/module' % (s.ret, s.err), None, s))
                    continue
                if s.err is not None:
                    found.append((tag + ': returns a result with an exception pending', None, s))
                    continue
                m = solve('richcompare == tuple order on ' + tag[:60], *(pcs + nospace + [bad]), strings=strs)
                if m == 'unknown':
                    continue
                if m is not None:
                    found.append((tag + ': result %r differs from (name, module) tuple order' % s.ret, m, s))
            elif kind == 'None':
                want = z3.Or(w.op == 0, w.op == 1, w.op == 3)
                bad = z3.Not(want) if s.ret is w.TRUE else want if s.ret is w.FALSE else z3.BoolVal(True)
                m = solve('None sorts after every interface on ' + tag[:60], *(pcs + [bad]))
                if m not in (None, 'unknown'):
                    found.append((tag + ': comparison with None returns %r' % s.ret, m, s))
            else:
                outs = [o for _, o in s_attr(s)]
                if any('another exception' in o for o in outs):
                    ok = s.ret is None and s.err is w.OTHERERR
                    what = 'the exception must propagate'
                else:
                    ok = s.ret is w.NOTIMPL and s.err is None
                    what = 'NotImplemented expected, no exception pending'
                if not ok:
                    found.append((tag + ': foreign operand (%s): returns %r with pending %r; %s' % (outs, s.ret, s.err, what), None, s))
        agg['reached'] = len(sums)
        agg['distinct'] = len(sums)
        for kind in ('self', 'None', 'another interface', 'foreign object'):
            if not kinds.get(kind):
                out['harness_errors'].append('ir_compare: vacuous - no path for operand kind %r' % kind)
        rets = {repr(s.ret) for s in sums}
        for need in ('<Py_True>', '<Py_False>', '<Py_NotImplemented>', 'None'):
            if need not in rets:
                out['harness_errors'].append('ir_compare: vacuous - no path returns %s' % need)

        # ---- algebraic laws over the summary R(op; a, b) of the interface-vs-interface paths, unbounded strings -------
        ib = kinds.get('another interface', [])
        Rtrue = z3.Or(*[z3.And(*s.pc) for s in ib if s.ret is w.TRUE]) if ib else z3.BoolVal(False)
        a1, b1, a2, b2, a3, b3 = z3.Strings('a1 b1 a2 b2 a3 b3')

        def R(op, x, y):
            return z3.substitute(Rtrue, (w.op, z3.IntVal(op)), (w.n1, x[0]), (w.m1, x[1]), (w.n2, y[0]), (w.m2, y[1]))
        A, B, C = (a1, b1), (a2, b2), (a3, b3)
        LT, LE, EQ, NE, GT, GE = range(6)
        xor3 = lambda p, q, r: z3.Or(z3.And(p, z3.Not(q), z3.Not(r)), z3.And(z3.Not(p), q, z3.Not(r)), z3.And(z3.Not(p), z3.Not(q), r))
        laws = [
            ('trichotomy: exactly one of <, ==, >', z3.Not(xor3(R(LT, A, B), R(EQ, A, B), R(GT, A, B)))),
            ('reflected operators: a < b iff b > a, a <= b iff b >= a', z3.Or(R(LT, A, B) != R(GT, B, A), R(LE, A, B) != R(GE, B, A))),
            ('== symmetric, != is its negation', z3.Or(R(EQ, A, B) != R(EQ, B, A), R(NE, A, B) == R(EQ, A, B))),
            ('<= iff < or ==; >= iff not <', z3.Or(R(LE, A, B) != z3.Or(R(LT, A, B), R(EQ, A, B)), R(GE, A, B) == R(LT, A, B))),
            ('== iff equal (name, module)', R(EQ, A, B) != z3.And(a1 == a2, b1 == b2)),
            ('transitivity of <', z3.And(R(LT, A, B), R(LT, B, C), z3.Not(R(LT, A, C)))),
            ('transitivity of <=', z3.And(R(LE, A, B), R(LE, B, C), z3.Not(R(LE, A, C)))),
        ]
        if ib:
            for name, neg in laws:
                m = solve('law: ' + name, neg, strings=(a1, b1, a2, b2, a3, b3))
                if m not in (None, 'unknown'):
                    vals = {str(d): _z3str_to_py(m[d]) for d in m.decls() if z3.is_string_value(m[d])}
                    found.append(('order law violated by the C comparison: %s; witness %r' % (name, vals), ('law', vals), None))

        # ---- IB__hash__ ---------------------------------------------------------------------------------------------
        hw = _HashWorld(z3, irfun)
        hx = irfun.FunExec(funcs, 'IB__hash__', hw)
        hs = hx.run_all(budget_s=60)
        agg['paths'] += hx.stats['paths']
        agg['solver_queries'] += hx.stats['queries']
        agg['solver_s'] += hx.stats['solver_s']
        agg['unknown'] += hx.stats.get('n_inconclusive', 0)
        exhausted = exhausted and bool(hx.stats.get('exhausted')) and not hx.stats.get('n_inconclusive')
        inv = z3.Or(hw.cached == 0, hw.cached == hw.H(hw.n, hw.m))      # representation invariant of the memo
        n_hash_ok = 0
        for s in hs:
            tag = 'IB__hash__ path (%s)' % '; '.join(s.decisions)
            if isinstance(s.ret, tuple):
                found.append((tag + ': ' + s.ret[1], None, s))
                continue
            if s.balance:
                found.append((tag + ': unbalanced references %r' % s.balance, None, s))
                continue
            if any('NULL' in d for d in s.decisions):
                if not (s.ret == -1 and s.err is hw.ATTRERR):
                    found.append((tag + ': deleted name/module must raise AttributeError (returns %r, pending %r)' % (s.ret, s.err), None, s))
                continue
            stores = [e for e in s.events if e[0] == 'store' and e[2] == (hw.fields.index('_v_cached_hash'),)]
            final = stores[-1][3] if stores else hw.cached
            m = solve('hash == hash((name, module)) and memo stays valid: ' + tag[:50],
                      *(list(s.pc) + [inv, z3.Or(s.ret != hw.H(hw.n, hw.m), z3.Not(z3.Or(final == 0, final == hw.H(hw.n, hw.m))))]))
            if m not in (None, 'unknown'):
                found.append((tag + ': hash is not hash((name, module)) or the memo is left inconsistent', ('hash', {}), s))
            n_hash_ok += 1
        if n_hash_ok < 2:
            out['harness_errors'].append('ir_compare: vacuous - IB__hash__ memo hit and miss paths not both reached')
        agg['reached'] += len(hs)
        agg['distinct'] += len(hs)
        agg['exhaustive'] = exhausted and not bound_note
        agg['solver_s'] = round(agg['solver_s'], 2)
        agg['stubs'] = dict(irfun.COMMON_STUB_DOC, **_CmpWorld.STUB_DOC, **_HashWorld.STUB_DOC)
        agg['samples'] = [s.describe() for s in sums[:3]]
        if bound_note:
            agg['errors'].append('unbounded string query returned unknown; decided for |s| <= 4 only: %s' % bound_note[:4])

        # ---- replay on the real C build -------------------------------------------------------------------------------
        for k, (msg, model, s) in enumerate(found[:6]):
            out['replays_attempted'] += 1
            wit = None
            if model is not None and not isinstance(model, tuple):
                wit = dict(n1=_z3str_to_py(model.eval(w.n1, model_completion=True)), m1=_z3str_to_py(model.eval(w.m1, model_completion=True)),
                           n2=_z3str_to_py(model.eval(w.n2, model_completion=True)), m2=_z3str_to_py(model.eval(w.m2, model_completion=True)),
                           op=model.eval(w.op, model_completion=True).as_long(), other=s.decisions[0].split(' -> ')[1],
                           attrs=[o for _, o in s_attr(s)])
            elif isinstance(model, tuple) and model[0] == 'law':
                wit = dict(law=True, vals=model[1])
            res = _replay_compare_on_c(ctx, wit)
            if res.get('reproduced'):
                out['replays_reproduced'] += 1
                rpath = os.path.join(ctx['evdir'], 'replays', 'C12-ir_compare-%d.json' % k)
                os.makedirs(os.path.dirname(rpath), exist_ok=True)
                json.dump(dict(property='C12', harness='ir_compare', impl='c', ir_finding=msg, witness=wit, observed=res,
                               how='PURE_PYTHON=0: build the two interfaces with the witness names/modules and compare'), open(rpath, 'w'), indent=1)
                out['violations'].append(dict(harness='ir_compare', impl='c', signature='C12:ir:compare',
                                              msg='%s; reproduced on the real build: %s' % (msg[:400], res.get('msg', '')[:300]), replay=rpath))
            else:
                out['harness_errors'].append('ir_compare: %s - NOT reproduced on the real build (%s); inconclusive' % (msg[:500], res.get('msg', '')[:200]))
    finally:
        shutil.rmtree(wd, ignore_errors=True)
    agg['cpu_s'] = round(time.time() - t0, 1)
    return out


def s_attr(s):
    return [(e[1], e[2]) for e in s.events if e[0] == 'getattr']


_REPLAY_CMP = r'''
import json, operator, sys
from vlib import boot
boot.select('c')
from zope.interface.interface import InterfaceClass
w = json.loads(sys.argv[1])
OPS = [operator.lt, operator.le, operator.eq, operator.ne, operator.gt, operator.ge]
bad = []
def mk(n, m): return InterfaceClass(n, (), {}, __module__=m)
def key(i): return (i.__name__, i.__module__)
def probe(a, b, ops):
    for k in ops:
        try: got = OPS[k](a, b)
        except Exception as e: got = 'raises %s' % type(e).__name__
        want = OPS[k](key(a), key(b))
        if got is not want: bad.append('%r %s %r -> %r, tuple order says %r' % (key(a), OPS[k].__name__, key(b), got, want))
if w is None:
    pass
elif w.get('law'):
    v = w['vals']
    objs = [mk(v.get('a%d' % i, ''), v.get('b%d' % i, '')) for i in (1, 2, 3)]
    for a in objs:
        for b in objs:
            probe(a, b, range(6))
    for a in objs:
        if hash(a) != hash(key(a)): bad.append('hash(%r) != hash of its (name, module)' % (key(a),))
else:
    a = mk(w['n1'], w['m1'])
    if w['other'] == 'self': probe(a, a, range(6))
    elif w['other'] == 'another interface': probe(a, mk(w['n2'], w['m2']), range(6)); probe(mk(w['n2'], w['m2']), a, range(6))
    elif w['other'] == 'None':
        for k in range(6):
            got = OPS[k](a, None) if k in (2, 3) else a.__class__.__dict__.get('__lt__') and getattr(a, '__%s__' % OPS[k].__name__)(None)
            want = k in (0, 1, 3)
            if got is not want: bad.append('interface %s None -> %r, expected %r' % (OPS[k].__name__, got, want))
    else:
        class F: pass
        f = F(); f.__name__ = w['n2']; f.__module__ = w['m2']
        class K:
            def __init__(s, i): s.i = i
            @property
            def __name__(s): return s.i.__name__
            @property
            def __module__(s): return s.i.__module__
        for k in range(6):
            got = getattr(a, '__%s__' % OPS[k].__name__)(f)
            want = OPS[k](key(a), (f.__name__, f.__module__))
            if got is not want: bad.append('interface %s foreign(%r) -> %r, tuple order says %r' % (OPS[k].__name__, (f.__name__, f.__module__), got, want))
# generic sweep around the witness strings: catches defects whose IR description has no string model (reference balance ...)
print(json.dumps(dict(reproduced=bool(bad), msg='; '.join(bad[:3]))))
'''


def _replay_compare_on_c(ctx, wit):
    r = subprocess.run([ctx['py'], '-c', _REPLAY_CMP, json.dumps(wit)], cwd=ctx['root'], env=ctx['env'], capture_output=True, text=True, timeout=120)
    try:
        return json.loads(r.stdout.strip().splitlines()[-1])
    except Exception:
        return dict(reproduced=False, msg='replay crashed rc=%s: %s' % (r.returncode, (r.stderr or r.stdout)[-400:]))


_ENC = ['zope.interface.interface:NameAndModuleComparisonMixin._compare',
        'zope.interface.interface:NameAndModuleComparisonMixin.__lt__',
        'zope.interface.interface:NameAndModuleComparisonMixin.__le__',
        'zope.interface.interface:NameAndModuleComparisonMixin.__gt__',
        'zope.interface.interface:NameAndModuleComparisonMixin.__ge__',
        'zope.interface.interface:InterfaceBasePy.__eq__', 'zope.interface.interface:InterfaceBasePy.__ne__',
        'zope.interface.interface:InterfaceBasePy.__hash__', 'zope.interface.declarations:Implements.named']

HARNESSES = [
    Harness('s_pairs', make_s_pairs, kind='S', impls=('py',),
            tiers=dict(quick=dict(budget_s=75, parts=16, ppt=30, params=dict(maxlen=3)),
                       thorough=dict(budget_s=1500, parts=16, ppt=60, params=dict(maxlen=3))),
            encoded=_ENC,
            bounds='symbolic str name/module of both operands, |s|<=3 quick (<=4 thorough), any code points; '
                   'operand kinds InterfaceClass x InterfaceClass and Implements x Implements (mixed pairs: e_pool); all six operators, reflected forms, None, a foreign object, hash',
            outside='|s|>4 on the Python side (the C comparison is decided for unbounded strings by the IR engine); names containing a space',
            oracle='lexicographic order on (name, module) written without tuple comparison; identity equality for Implements',
            stubs=['builtin hash inside zope.interface.interface replaced by an injective recorder (uninterpreted function)',
                   'operands are real InterfaceClass instances initialised by InterfaceBase.__init__ only (no bases / implied set)'],
            assumptions=['interface names contain no space (Element.__init__ turns such a name into the doc string)']),
    Harness('s_triples', make_s_triples, kind='S', impls=('py',),
            tiers=dict(quick=dict(budget_s=60, parts=9, ppt=30, params=dict(maxlen=2)),
                       thorough=dict(budget_s=1200, parts=9, ppt=60, params=dict(maxlen=2))),
            encoded=_ENC, bounds='three interfaces, symbolic names/modules |s|<=2: transitivity of <, <=, ==; antisymmetry',
            oracle='order laws'),
    Harness('e_pool', make_e_pool, kind='E', impls=('py', 'c'),
            tiers=dict(quick=dict(budget_s=60, parts=8, params=dict(pool=5)),
                       thorough=dict(budget_s=600, parts=16, params=dict(pool=8))),
            encoded=_ENC + ['zope.interface._zope_interface_coptimizations:InterfaceBase'],
            bounds='names/modules from a pool of 5 (8) strings incl. empty, prefix-related, dotted, non-ASCII, astral; '
                   'all ordered pairs x kinds; real hash(); sorted() of a mixed collection with None; both builds',
            oracle='as s_pairs + hash(I) == hash((name, module)) + sorted() == key order'),
    Harness('ir_compare', kind='custom', impls=('c',), run=run_ir_compare, tiers=dict(quick={}, thorough={}),
            encoded=['zope.interface._zope_interface_coptimizations:InterfaceBase'],
            bounds='LLVM IR (clang-14 -O0 + mem2reg) of IB_richcompare and IB__hash__ from the current C source; every path; name/module of both '
                   'operands are z3 String terms of unbounded length, the operator is a z3 Int in 0..5; other operand in {self, None, another '
                   'interface, foreign object whose __name__/__module__ each is a str / raises AttributeError / raises another exception}',
            outside='operands whose __name__/__module__ are not exact str objects (a known C10 finding covers them); names containing a space; '
                    'allocation failure; failure of the module-state lookup',
            oracle='per path: path condition /\\ result != (name, module) tuple order is unsat; None sorts last; foreign operand -> NotImplemented / '
                   'exception propagates; frame reference balance; then order laws over the disjunction of path summaries (trichotomy, reflection, '
                   'negation, transitivity of < and <=, == iff equal strings); IB__hash__: result == hash((name, module)) and the memo invariant '
                   '(0 or that hash) is inductive; counterexample strings are replayed on the real C build',
            stubs=['C-API contract stubs listed in the evidence (per_harness.stubs)']),
    Harness('x_process', kind='custom', run=run_x_process, impls=('py', 'c'), tiers=dict(quick={}, thorough={}),
            encoded=[], bounds='one 49-element mixed collection sorted under PYTHONHASHSEED 0 and 12345 in both builds',
            oracle='identical key sequences in all four processes'),
]

MANIFEST = {
    'engine': 'symx+irsym',
    'technique': 'symbolic execution: (1) Engine C functional mode - every path of the LLVM IR of IB_richcompare / IB__hash__ (current C source) '
                 'with name/module as z3 String terms of unbounded length and the operator as a z3 Int; per path `path condition and result != '
                 '(name, module) tuple order` is discharged by z3, then order laws (trichotomy, reflection, negation, transitivity, == iff equal '
                 'strings) over the disjunction of the summaries, hash memo invariant inductive; counterexample strings replayed on the C build; '
                 '(2) CrossHair engine + z3 strings on the real Python comparison/hash methods with symbolic name/module (|s| <= 3); '
                 '(3) solver-enumerated string pool on both builds; cross-process sort',
    'text': 'The C comparison is decided for all strings (no length bound) and all six operators on every IR path; the Python comparison for '
            'all strings up to the length bound on every path of _compare/__lt__.../__eq__/__hash__ (one path covers all strings taking it), '
            'against a lexicographic oracle; mixed kinds, real hash() and process independence on a solver-enumerated pool in fresh builds.',
    'note': 'Trusted: z3 string theory, the C-API contract stubs of ir_compare (evidence lists them), CrossHair string model; builtin hash treated '
            'as an uninterpreted function.',
}
