"""C12 Interfaces have a total, hash-consistent, process-independent order."""
import json
import os
import subprocess
import time

from vlib.harness import Harness
from vlib.symx import Violation, assume, native, pick, reached


class _Foreign:
    """No __name__/__module__ instance attributes reachable: comparison must be NotImplemented."""
    __slots__ = ()

    def __getattr__(self, name):
        raise AttributeError(name)


def _mk(kind, name, module, bare=False):
    from zope.interface.interface import InterfaceBase, InterfaceClass
    from zope.interface.declarations import Implements
    if kind == 0:
        if bare:
            # S tier: a real InterfaceClass instance initialised by the real
            # InterfaceBase.__init__ only.  Specification.__init__ (bases, implied set) is
            # skipped: it inserts the object into dicts, i.e. hashes it, which would force
            # the symbolic strings to concrete values before any comparison runs.
            ob = InterfaceClass.__new__(InterfaceClass)
            InterfaceBase.__init__(ob, name, module)
            return ob
        return InterfaceClass(name, (), {}, __module__=module)
    inst = Implements.named(name)
    return inst


def _key(kind, name, module):
    return (name, module if kind == 0 else 'zope.interface.declarations')


def _lt(k1, k2):
    # lexicographic order on (name, module), stated without tuple comparison
    return k1[0] < k2[0] or (k1[0] == k2[0] and k1[1] < k2[1])


def check_pair(a, b, ka, kb, kinds, hashes=True):
    """All binary laws for one ordered pair; k* are the (name, module) keys."""
    eqk = ka[0] == kb[0] and ka[1] == kb[1]
    lt, gt = _lt(ka, kb), _lt(kb, ka)
    both_ifaces = kinds == (0, 0)
    exp_eq = eqk if both_ifaces else (a is b)
    got = dict(lt=a < b, le=a <= b, gt=a > b, ge=a >= b, eq=a == b, ne=a != b)
    exp = dict(lt=lt, le=lt or eqk, gt=gt, ge=gt or eqk, eq=exp_eq, ne=not exp_eq)
    for op in ('lt', 'le', 'gt', 'ge', 'eq', 'ne'):
        g = got[op]
        if g is NotImplemented or bool(g) != bool(exp[op]):
            raise Violation('%s on keys %r, %r (kinds %r): got %r expected %r' % (op, ka, kb, kinds, g, exp[op]),
                            signature='C12:order:%s' % op)
    # reflected operators
    if bool(b > a) != bool(got['lt']) or bool(b >= a) != bool(got['le']) or bool(b == a) != bool(got['eq']) \
            or bool(b != a) != bool(got['ne']):
        raise Violation('reflected comparison disagrees on keys %r, %r' % (ka, kb), signature='C12:reflected')
    # trichotomy on the key order
    if (1 if got['lt'] else 0) + (1 if eqk else 0) + (1 if got['gt'] else 0) != 1:
        raise Violation('trichotomy broken on keys %r, %r' % (ka, kb), signature='C12:trichotomy')
    if hashes and got['eq'] and hash(a) != hash(b):
        raise Violation('equal but hash differs: %r, %r' % (ka, kb), signature='C12:hash')


def check_single(a):
    if not (a < None) or (a > None) or not (a <= None) or (a >= None) or a == None or not (a != None):  # noqa: E711
        raise Violation('None must sort after every interface', signature='C12:none')
    if not (None > a) or (None < a):
        raise Violation('reflected None comparison', signature='C12:none')
    f = _Foreign()
    for op in ('__lt__', '__le__', '__gt__', '__ge__'):
        if getattr(a, op)(f) is not NotImplemented:
            raise Violation('%s(foreign) is not NotImplemented' % op, signature='C12:foreign')
    if (a == f) or not (a != f):
        raise Violation('equal to a foreign object', signature='C12:foreign')
    if not (a == a) or (a != a) or (a < a) or not (a <= a):
        raise Violation('reflexivity', signature='C12:reflexive')
    if type(a).__name__ == 'InterfaceClass':
        # the order is by the (name, module) key of *any* operand that has one: with a look-alike of equal key, <= and >= both hold, so
        # == must hold too and != must not (antisymmetry; != is the negation of ==), in both directions
        d = _Lookalike(a.__name__, a.__module__)
        got = dict(le=a <= d, ge=a >= d, lt=a < d, gt=a > d, eq=a == d, ne=a != d, req=d == a, rne=d != a)
        if not (got['le'] is True and got['ge'] is True and got['lt'] is False and got['gt'] is False and got['eq'] is True
                and got['ne'] is False and got['req'] is True and got['rne'] is False):
            raise Violation('interface vs a foreign object with the same (__name__, __module__) and no comparison methods: %r; <= and >= '
                            'hold, so == must hold and != must not (also reflected)' % (got,), signature='C12:lookalike')
        d2 = _Lookalike(a.__name__ + 'x', a.__module__)
        if (a == d2) is not False or (a != d2) is not True or not (a < d2) or (a > d2):
            raise Violation('interface vs a foreign object with a larger name: ==%r !=%r <%r >%r' % (a == d2, a != d2, a < d2, a > d2),
                            signature='C12:lookalike')
    # a foreign object without name/module that implements its own (in)equality: the interface must defer to it
    # (__eq__/__ne__ return NotImplemented), so that != stays the negation of == and reflected comparisons agree
    h = _Handle()
    if type(a).__name__ == 'InterfaceClass':
        if (a == h) is not True or (a != h) is not False or (h == a) is not True or (h != a) is not False:
            raise Violation('interface vs an object with its own __eq__/__ne__: == gives %r, != gives %r (reflected %r / %r); '
                            '!= must be the negation of ==' % (a == h, a != h, h == a, h != a), signature='C12:foreign-eq')


class _Lookalike:
    """A foreign object that carries the same __name__ / __module__ as an interface and no comparison methods of its own (a transparent
    proxy, a class of the same name in the same module - the case the _compare docstring names)."""

    def __init__(self, name, module):
        self.__name__ = name
        self.__module__ = module


class _Handle:
    __slots__ = ()
    __hash__ = None

    def __eq__(self, other):
        return True

    def __ne__(self, other):
        return False

    def __getattr__(self, name):
        raise AttributeError(name)


class _HashStub:
    """Stub for the builtin `hash` inside zope.interface.interface: an uninterpreted
    function is modelled by its argument (equal arguments <=> equal results)."""

    def __enter__(self):
        import zope.interface.interface as zi
        self.zi = zi
        zi.hash = lambda x: ('H', x)
        return self

    def __exit__(self, *a):
        del self.zi.hash


def make_s_pairs(params, part, nparts):
    MAXL = params.get('maxlen', 2)

    def h(n1: str, m1: str, n2: str, m2: str, k1: int, k2: int):
        kinds = (pick(k1, 2), pick(k2, 2))
        # CrossHair 0.0.110 mis-models `symbolic_str > longer_concrete_str` when the
        # symbolic one is a proper prefix (found by a non-reproducing counterexample).
        # Mixed kinds would compare a symbolic module with the constant module of
        # Implements, so the S tier keeps both operands of one kind (symbolic vs symbolic
        # is modelled correctly); mixed pairs are covered on concrete strings by e_pool.
        assume(kinds[0] == kinds[1])
        l1, l2 = len(n1), len(n2)
        # partition on kinds and name lengths (deterministic decode of the lengths)
        c1, c2 = pick(l1, MAXL + 1), pick(l2, MAXL + 1)
        assume(l1 == c1 and l2 == c2)
        assume(((kinds[0] * 2 + kinds[1]) * (MAXL + 1) ** 2 + c1 * (MAXL + 1) + c2) % nparts == part)
        assume(len(m1) <= MAXL and len(m2) <= MAXL)
        assume(' ' not in n1 and ' ' not in n2)
        a = _mk(kinds[0], n1, m1, bare=True)
        b = _mk(kinds[1], n2, m2, bare=True)
        ka, kb = _key(kinds[0], n1, m1), _key(kinds[1], n2, m2)
        reached(None, dict(kinds=kinds, a=ka, b=kb))
        with _HashStub():
            check_pair(a, b, ka, kb, kinds)
            # the memoised hash is consistent with a fresh computation
            if kinds[0] == 0 and (a.__hash__() != a.__hash__() or a.__hash__() != ('H', (n1, m1))):
                raise Violation('hash is not hash((name, module)) / memo inconsistent', signature='C12:hash')
        check_single(a)
    return h


def make_s_triples(params, part, nparts):
    MAXL = params.get('maxlen', 1)

    def h(n1: str, m1: str, n2: str, m2: str, n3: str, m3: str):
        for s in (n1, m1, n2, m2, n3, m3):
            assume(len(s) <= MAXL)
        c = pick(len(n1), MAXL + 1) * (MAXL + 1) + pick(len(n2), MAXL + 1)
        assume(c % nparts == part)
        assume(' ' not in n1 and ' ' not in n2 and ' ' not in n3)
        a, b, c_ = _mk(0, n1, m1, True), _mk(0, n2, m2, True), _mk(0, n3, m3, True)
        reached(None, dict(a=(n1, m1), b=(n2, m2), c=(n3, m3)))
        if a < b and b < c_ and not (a < c_):
            raise Violation('transitivity of < broken', signature='C12:transitive')
        if a <= b and b <= c_ and not (a <= c_):
            raise Violation('transitivity of <= broken', signature='C12:transitive')
        if a == b and b == c_ and not (a == c_):
            raise Violation('transitivity of == broken', signature='C12:transitive')
        if a <= b and b <= a and not (a == b):
            raise Violation('antisymmetry broken', signature='C12:antisymmetry')
    return h


POOL = ['', 'a', 'b', 'ab', 'a.b', 'é', 'B', 'a\U0001f600']


def _fresh(s):
    t = ''.join([c for c in s])
    return t


def run_concrete_pair(case):
    (i1, j1, i2, j2, k1, k2) = case
    # fresh string objects: equal names/modules of the two operands must not be the *same* object
    # (identifier-like literals are interned; names built at run time are not)
    n1, m1, n2, m2 = _fresh(POOL[i1]), _fresh(POOL[j1]), _fresh(POOL[i2]), _fresh(POOL[j2])
    a, b = _mk(k1, n1, m1), _mk(k2, n2, m2)
    ka, kb = _key(k1, n1, m1), _key(k2, n2, m2)
    check_pair(a, b, ka, kb, (k1, k2), hashes=True)
    check_single(a)
    if k1 == 0 and hash(a) != hash((n1, m1)):
        raise Violation('hash(interface) != hash((name, module)) for %r' % (ka,), signature='C12:hash')
    # sorting a mixed collection is deterministic: by key, None last
    c = _mk(0, n2, m1)
    coll = [b, None, a, c]
    s = sorted(coll, key=lambda x: (1, ('', '')) if x is None else (0, (x.__name__, x.__module__)))
    try:
        s2 = sorted(coll)
    except TypeError as e:
        raise Violation('sorted() raised %r' % (e,), signature='C12:sorted')
    if [None if x is None else (x.__name__, x.__module__) for x in s2] != \
            [None if x is None else (x.__name__, x.__module__) for x in s]:
        raise Violation('sorted() order differs from key order for %r %r' % (ka, kb), signature='C12:sorted')


def make_e_pool(params, part, nparts):
    P = params.get('pool', 5)

    def h(i1: int, j1: int, i2: int, j2: int, k1: int, k2: int):
        c_i1 = pick(i1, P)
        c_i2 = pick(i2, P)
        assume((c_i1 * P + c_i2) % nparts == part)
        case = (c_i1, pick(j1, P), c_i2, pick(j2, P), pick(k1, 2), pick(k2, 2))
        reached(case, dict(a=(POOL[case[0]], POOL[case[1]]), b=(POOL[case[2]], POOL[case[3]]), kinds=case[4:]))
        native(run_concrete_pair, case)
    return h


def run_x_process(tier, ctx):
    """Cross-process / cross-implementation determinism: the same mixed collection is
    sorted under two hash seeds and both builds; the key sequences must be identical."""
    t0 = time.time()
    agg = dict(harness='x_process', impl='py+c', kind='E', paths=0, reached=0, distinct=0, unknown=0,
               solver_queries=0, solver_s=0.0, samples=[], errors=[], exhaustive=True)
    out = dict(agg=agg, violations=[], harness_errors=[])
    prog = r'''
import sys, json
sys.path.insert(0, %r)
from vlib import boot
boot.select(sys.argv[1])
from props.C12 import POOL, _mk
import itertools
objs = []
for n in POOL:
    for m in POOL[:4]:
        objs.append(_mk(0, n, m))
    objs.append(_mk(1, n, ''))
objs.append(None)
res = sorted(objs)
out = [None if x is None else (type(x).__name__, x.__name__, x.__module__) for x in res]
hs = [hash(x) == hash((x.__name__, x.__module__)) for x in objs if x is not None and type(x).__name__ == 'InterfaceClass']
print(json.dumps([out, all(hs)]))
''' % ctx['root']
    results = {}
    for impl in ('py', 'c'):
        for seed in ('0', '12345'):
            env = dict(ctx['env'])
            env['PYTHONHASHSEED'] = seed
            r = subprocess.run([ctx['py'], '-c', prog, impl], env=env, capture_output=True, text=True, cwd=ctx['root'])
            agg['paths'] += 1
            if r.returncode != 0:
                out['harness_errors'].append('x_process %s/%s failed: %s' % (impl, seed, r.stderr[-800:]))
                continue
            results[(impl, seed)] = json.loads(r.stdout.strip().splitlines()[-1])
            agg['reached'] += 1
    vals = list(results.values())
    if vals:
        agg['distinct'] = len(vals)
        agg['samples'].append(dict(sorted_head=vals[0][0][:5], runs=sorted('%s/seed=%s' % k for k in results)))
        for k, v in results.items():
            if v[0] != vals[0][0] or not v[1]:
                rpath = os.path.join(ctx['evdir'], 'replays', 'C12-x_process.json')
                os.makedirs(os.path.dirname(rpath), exist_ok=True)
                json.dump(dict(property='C12', harness='x_process', note='sorted order differs across runs',
                               runs={'%s/%s' % kk: vv for kk, vv in results.items()}), open(rpath, 'w'), indent=1)
                out['violations'].append(dict(harness='x_process', impl=k[0], signature='C12:cross-process',
                                              msg='sorted() of a mixed collection differs between %r and %r (or hash != hash((name,module)))' % (k, list(results)[0]),
                                              replay=rpath))
                break
    agg['cpu_s'] = round(time.time() - t0, 2)
    return out


_ENC = ['zope.interface.interface:NameAndModuleComparisonMixin._compare',
        'zope.interface.interface:NameAndModuleComparisonMixin.__lt__',
        'zope.interface.interface:NameAndModuleComparisonMixin.__le__',
        'zope.interface.interface:NameAndModuleComparisonMixin.__gt__',
        'zope.interface.interface:NameAndModuleComparisonMixin.__ge__',
        'zope.interface.interface:InterfaceBasePy.__eq__', 'zope.interface.interface:InterfaceBasePy.__ne__',
        'zope.interface.interface:InterfaceBasePy.__hash__', 'zope.interface.declarations:Implements.named']

HARNESSES = [
    Harness('s_pairs', make_s_pairs, kind='S', impls=('py',),
            tiers=dict(quick=dict(budget_s=75, parts=16, ppt=30, params=dict(maxlen=3)),
                       thorough=dict(budget_s=1500, parts=16, ppt=60, params=dict(maxlen=3))),
            encoded=_ENC,
            bounds='symbolic str name/module of both operands, |s|<=3 quick (<=4 thorough), any code points; '
                   'operand kinds InterfaceClass x InterfaceClass and Implements x Implements (mixed pairs: e_pool); all six operators, reflected forms, None, a foreign object, hash',
            outside='|s|>4 on the Python side (the C comparison is decided for unbounded strings by the IR engine); names containing a space',
            oracle='lexicographic order on (name, module) written without tuple comparison; identity equality for Implements',
            stubs=['builtin hash inside zope.interface.interface replaced by an injective recorder (uninterpreted function)',
                   'operands are real InterfaceClass instances initialised by InterfaceBase.__init__ only (no bases / implied set)'],
            assumptions=['interface names contain no space (Element.__init__ turns such a name into the doc string)']),
    Harness('s_triples', make_s_triples, kind='S', impls=('py',),
            tiers=dict(quick=dict(budget_s=60, parts=9, ppt=30, params=dict(maxlen=2)),
                       thorough=dict(budget_s=1200, parts=9, ppt=60, params=dict(maxlen=2))),
            encoded=_ENC, bounds='three interfaces, symbolic names/modules |s|<=2: transitivity of <, <=, ==; antisymmetry',
            oracle='order laws'),
    Harness('e_pool', make_e_pool, kind='E', impls=('py', 'c'),
            tiers=dict(quick=dict(budget_s=60, parts=8, params=dict(pool=5)),
                       thorough=dict(budget_s=600, parts=16, params=dict(pool=8))),
            encoded=_ENC + ['zope.interface._zope_interface_coptimizations:InterfaceBase'],
            bounds='names/modules from a pool of 5 (8) strings incl. empty, prefix-related, dotted, non-ASCII, astral; '
                   'all ordered pairs x kinds; real hash(); sorted() of a mixed collection with None; both builds',
            oracle='as s_pairs + hash(I) == hash((name, module)) + sorted() == key order'),
    Harness('x_process', kind='custom', run=run_x_process, impls=('py', 'c'), tiers=dict(quick={}, thorough={}),
            encoded=[], bounds='one 49-element mixed collection sorted under PYTHONHASHSEED 0 and 12345 in both builds',
            oracle='identical key sequences in all four processes'),
]

MANIFEST = {
    'engine': 'symx',
    'technique': 'symbolic execution (CrossHair engine + z3 strings) of the real comparison/hash methods on symbolic name/module '
                 'strings; solver-enumerated string pool on both builds; cross-process sort',
    'text': 'S tier: every path of _compare/__lt__.../__eq__/__hash__ for all name/module strings up to the length bound is explored '
            '(one path covers all strings taking it), against a lexicographic oracle. The C rich-compare is run on a solver-enumerated '
            'pool of corner-case strings in a fresh build.',
    'note': 'Trusted: CrossHair string model and z3; builtin hash treated as an uninterpreted function.',
}
