"""C13 Specifications pickle by reference and unpickle to the equivalent live object.

E tier (weak fit for a solver, stated): the byte-level pickle machinery is CPython's and is
trusted; what is enumerated by the solver is the *declaration shape* - every history up to the
bound of declaration calls over importable classes/interfaces - and for every shape every
specification and declared object is round-tripped through every pickle protocol.
"""
import pickle
import sys
import types

from vlib.harness import Harness
from vlib.symx import Collector, Violation, assume, native, pick, reached
from vlib import universe as U

INAME = ['IA', 'IB', 'IC', 'ID']
ISHAPE = ((), (0,), (), (2,))
MARK = 'VPDOCMARKERxyzzy'

OPS = [
    ('classImplements', 0, 0), ('classImplements', 1, 1), ('classImplements', 2, 2),
    ('classImplementsOnly', 1, 2), ('classImplementsOnly', 2, 0), ('classImplementsOnly', 0, 3),
    ('classImplementsFirst', 1, 2),
    ('cdirectlyProvides', 1, (3,)), ('calsoProvides', 2, 2), ('cdirectlyProvides', 0, (0, 2)),
    ('directlyProvides', 0, (2,)), ('directlyProvides', 0, (3, 0)), ('alsoProvides', 0, 3),
    ('directlyProvides', 1, (2,)), ('directlyProvides', 0, (2, ('impl', 2))), ('noLongerProvides', 0, 2),
    ('directlyProvides', 0, ()), ('directlyProvides', 1, (1,)),
    ('classImplements', 3, 0), ('classImplementsOnly', 3, 2),
]
NOPS = len(OPS)
CLS_OF_OBJ = {0: 1, 1: 2}     # a = K1(), b = K2()
SUBCLASSES = {0: (0, 1, 2), 1: (1,), 2: (2,), 3: (3,)}


def valid(ops):
    """Scope: a class is not narrowed (*only* forms) after one of its instances received a direct declaration -
    the pickle stores the declaration's arguments, not the elided form (C01's documented elision)."""
    touched = set()
    for op in ops:
        if op[0] in ('directlyProvides', 'alsoProvides', 'noLongerProvides'):
            touched.add(CLS_OF_OBJ[op[1]])
        if op[0] in ('cdirectlyProvides', 'calsoProvides'):
            touched.add(('meta', op[1]))
        if op[0] == 'classImplementsOnly' and any(c in touched for c in SUBCLASSES[op[1]]):
            return False
    return True


class World:
    def __init__(self):
        from zope.interface import Attribute, Interface
        from zope.interface.interface import InterfaceClass
        name = U.fresh_module_name()
        self.modname = name
        mod = types.ModuleType(name)
        sys.modules[name] = mod
        self.mod = mod
        self.I = []
        for i, bases in enumerate(ISHAPE):
            b = tuple(self.I[j] for j in bases) or (Interface,)
            if i == len(ISHAPE) - 1:
                # the usual way to make an interface is a class statement; this one runs inside a function and the result is
                # published as a module global (importable by name, although its __qualname__ says '<locals>')
                ns = mod.__dict__
                exec('def _define(bases, Attribute, MARK):\n    class %s(*bases):\n        attr = Attribute(MARK)\n    return %s\n'
                     % (INAME[i], INAME[i]), ns)
                I = ns['_define'](b, Attribute, MARK)
            else:
                I = InterfaceClass(INAME[i], b, {'attr': Attribute(MARK)}, __module__=name)
            setattr(mod, INAME[i], I)
            self.I.append(I)
        self.K = []
        for i, bases in enumerate(((), (0,), (0,))):
            b = tuple(self.K[j] for j in bases) or (object,)
            cls = type('K%d' % i, b, {'__module__': name, 'method_' + MARK: lambda self: None})
            setattr(mod, cls.__name__, cls)
            self.K.append(cls)
        # K3 rejects attribute assignment, like a builtin / extension type: its specification lives in
        # BuiltinImplementationSpecifications instead of K3.__implemented__
        class Frozen(type):
            def __setattr__(cls, key, value):
                raise TypeError("cannot set %r attribute of immutable type" % key)
        Frozen.__module__, Frozen.__qualname__ = name, 'Frozen'     # importable, so that class declarations can name it
        mod.Frozen = Frozen
        K3 = Frozen('K3', (object,), {'__module__': name})
        mod.K3 = K3
        self.K.append(K3)
        self.obj = [self.K[1](), self.K[2]()]

    def close(self):
        from zope.interface.declarations import BuiltinImplementationSpecifications
        BuiltinImplementationSpecifications.pop(self.K[3], None)
        sys.modules.pop(self.modname, None)

    def arg(self, a):
        from zope.interface import implementedBy
        if isinstance(a, tuple):
            return implementedBy(self.K[a[1]])
        return self.I[a]


def apply_op(w, op):
    from zope.interface import (alsoProvides, classImplements, classImplementsFirst, classImplementsOnly, directlyProvides,
                                noLongerProvides)
    k = op[0]
    if k == 'classImplements':
        classImplements(w.K[op[1]], w.I[op[2]])
    elif k == 'classImplementsOnly':
        classImplementsOnly(w.K[op[1]], w.I[op[2]])
    elif k == 'classImplementsFirst':
        classImplementsFirst(w.K[op[1]], w.I[op[2]])
    elif k == 'cdirectlyProvides':
        directlyProvides(w.K[op[1]], *[w.arg(a) for a in op[2]])
    elif k == 'calsoProvides':
        alsoProvides(w.K[op[1]], w.I[op[2]])
    elif k == 'directlyProvides':
        directlyProvides(w.obj[op[1]], *[w.arg(a) for a in op[2]])
    elif k == 'alsoProvides':
        alsoProvides(w.obj[op[1]], w.I[op[2]])
    elif k == 'noLongerProvides':
        try:
            noLongerProvides(w.obj[op[1]], w.I[op[2]])
        except ValueError:
            pass


def fmt(ops):
    out = []
    for op in ops:
        k = op[0]
        if k.startswith('class'):
            out.append('%s(K%d, %s)' % (k, op[1], INAME[op[2]]))
        else:
            tgt = ('K%d' % op[1]) if k.startswith('c') else 'ab'[op[1]]
            args = op[2] if isinstance(op[2], tuple) else (op[2],)
            out.append('%s(%s%s)' % (k.lstrip('c') if k.startswith('c') and not k.startswith('class') else k, tgt,
                                     ''.join(', ' + (INAME[a] if not isinstance(a, tuple) else 'implementedBy(K%d)' % a[1]) for a in args)))
    return '; '.join(out)


def flat(spec):
    return [getattr(x, '__name__', repr(x)) for x in spec.flattened()] if hasattr(spec, 'flattened') else \
        [x.__name__ for x in spec.__iro__]


def roundtrip(w, hist):
    from zope.interface import implementedBy, providedBy
    from zope.interface.declarations import ClassProvides
    subjects = []
    for i, I in enumerate(w.I):
        subjects.append(('interface %s' % INAME[i], I, 'identical'))
    for c, K in enumerate(w.K):
        subjects.append(('implementedBy(K%d)' % c, implementedBy(K), 'identical'))
        cp = K.__dict__.get('__provides__')
        if cp is not None:
            subjects.append(('K%d.__provides__' % c, cp, 'classprovides'))
        subjects.append(('providedBy(K%d)' % c, providedBy(K), 'classprovides' if isinstance(providedBy(K), ClassProvides) else 'same'))
    for o, ob in enumerate(w.obj):
        p = ob.__dict__.get('__provides__')
        if p is not None:
            subjects.append(('%s.__provides__' % 'ab'[o], p, 'same'))
        subjects.append(('providedBy(%s)' % 'ab'[o], providedBy(ob), 'same'))
        subjects.append(('object %s' % 'ab'[o], ob, 'object'))
    col = Collector()
    for what, x, mode in subjects:
        for proto in range(0, pickle.HIGHEST_PROTOCOL + 1):
            ctx = 'history [%s], protocol %d, %s' % (hist, proto, what)
            try:
                data = pickle.dumps(x, proto)
                y = pickle.loads(data)
            except Exception as e:
                raise Violation('%s: round trip raised %s: %s' % (ctx, type(e).__name__, e), signature='C13:raises:' + mode)
            if MARK.encode() in data:
                raise Violation('%s: the pickle contains part of a definition (attribute documentation / method name), not only names'
                                % ctx, signature='C13:stores-definition')
            if mode == 'identical':
                if y is not x:
                    sig = 'C13:identity:' + ('implements' if what.startswith('implementedBy') else 'interface')
                    raise Violation('%s: unpickles to %r, not to the identical live specification %r' % (ctx, y, x), signature=sig)
            elif mode in ('same', 'classprovides'):
                if flat(y) != flat(x):
                    raise Violation('%s: unpickled declaration provides %s, original %s' % (ctx, flat(y), flat(x)),
                                    signature='C13:provides-differs')
                if not (y == x) or hash(y) != hash(x):
                    col.report('%s: unpickled declaration is not equal / hash-equal to the original' % ctx,
                               signature='C13:not-equal:' + mode)
            else:
                if type(y) is not type(x):
                    raise Violation('%s: unpickled object has type %r' % (ctx, type(y)), signature='C13:object-type')
                if flat(providedBy(y)) != flat(providedBy(x)):
                    raise Violation('%s: unpickled object provides %s, original %s' % (ctx, flat(providedBy(y)), flat(providedBy(x))),
                                    signature='C13:object-provides-differs')
                px, py = x.__dict__.get('__provides__'), y.__dict__.get('__provides__')
                if (px is None) != (py is None) or (px is not None and (not (py == px) or hash(py) != hash(px))):
                    raise Violation('%s: unpickled object carries a declaration not equal to the original\'s' % ctx,
                                    signature='C13:object-declaration-not-equal')
    col.finish()


def run(ops):
    w = World()
    try:
        for op in ops:
            apply_op(w, op)
        roundtrip(w, fmt(ops))
    finally:
        w.close()


def make_e(params, part, nparts):
    L = params['L']

    def h(n: int, o1: int, o2: int, o3: int, o4: int):
        ln = pick(n, L + 1)
        if ln:
            first = pick(o1, NOPS)
            assume(first % nparts == part)
            idx = (first,) + tuple(pick(o, NOPS) for o in (o2, o3, o4)[:ln - 1])
        else:
            assume(part == 0)
            idx = ()
        ops = tuple(OPS[i] for i in idx)
        assume(valid(ops))
        reached(idx, dict(history=fmt(ops)))
        native(run, ops)
    return h


_ENC = ['zope.interface.interface:InterfaceClass.__reduce__', 'zope.interface.declarations:Implements.__reduce__',
        'zope.interface.declarations:ProvidesClass.__reduce__', 'zope.interface.declarations:Provides',
        'zope.interface.declarations:ClassProvides.__reduce__', 'zope.interface.declarations:_ImmutableDeclaration.__reduce__',
        'zope.interface.declarations:implementedBy']

HARNESSES = [
    Harness('e_roundtrip', make_e, kind='E', impls=('py', 'c'),
            tiers=dict(quick=dict(budget_s=150, parts=16, params=dict(L=3)),
                       thorough=dict(budget_s=3000, parts=16, params=dict(L=4), impls=('py',))),
            encoded=_ENC,
            bounds='importable synthetic module with interfaces IA, IB(IA), IC, ID(IC), classes K0, K1(K0), K2(K0), K3 (rejects attribute assignment like a builtin type), instances a=K1(), b=K2(); '
                   'every history of <=3 (thorough 4) declaration calls from 20 (classImplements/Only/First, directlyProvides/alsoProvides on '
                   'classes and instances incl. a class specification as argument, noLongerProvides, clearing); after each history every '
                   'interface, class specification, class and instance provides-declaration and declared instance is round-tripped through '
                   'pickle protocols 0-5',
            outside='the byte-level pickle machinery (CPython, trusted; nothing there is symbolic); unpickling in another process; classes '
                    'narrowed with an *only* form after one of their instances was given a direct declaration (the pickle stores the declared '
                    'arguments, C01 documents the elision); non-importable objects',
            oracle='interfaces and class specifications: identical object; provides-declarations and declared objects: same flattened '
                   'interfaces, == and hash-equal; pickle bytes never contain attribute documentation or method names of the definitions'),
]

ASSUMPTIONS = ['CPython pickle is trusted', 'same-process unpickling with the synthetic module importable']

MANIFEST = {
    'engine': 'symx',
    'technique': 'symbolic execution (CrossHair engine + z3) over solver-enumerated declaration histories on importable classes/interfaces; every '
                 'specification and declared object round-tripped through the real pickle for every protocol, both builds',
    'text': 'Bounded-exhaustive over declaration shapes (every history of declaration calls up to the bound, including the only/first forms '
            'and class specifications used as arguments) x all pickle protocols x all specification subjects. Whether the reduced form '
            'reconstructs the same declaration depends on how the class was declared, which is the dimension enumerated; the pickle byte '
            'machinery itself is concrete (weak fit for a solver, stated in DESIGN).',
    'note': 'Trusted: CPython pickle. Open known finding: a ClassProvides pickled directly unpickles to a new, unequal object.',
}
