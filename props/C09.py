"""C09 Registration bookkeeping reflects exactly the net effect of the history."""
import itertools

from vlib.harness import Harness
from vlib.symx import Violation, assume, native, pick, reached
from vlib import regmodel as M
from vlib import regprog as RP

# keys: (required indices into RegUniverse.req_pool(), provided index, name)
KEYS = [((1,), 0, ''), ((1,), 0, 'n'), ((1,), 1, ''), ((2,), 0, ''), ((0,), 0, ''), ((1, 2), 0, ''), ((), 0, ''), ((1, 2), 1, '')]
KEYS_SMALL = [((1,), 0, ''), ((1,), 1, ''), ((2,), 0, ''), ((1, 2), 0, '')]
SUBKEYS = [((1,), 0), ((1,), None), ((0, 2), 0)]      # the arity-2 key spells its first position None (any object)
V1, V1B, V2 = 'v1', ('v1b', 'v1'), 'v2'      # v1b == v1 but is a distinct object
VF = ('FALSY', 'vf')                          # a value that is false in a boolean context


def alphabet(small):
    ops = []
    for (req, pi, nm) in (KEYS_SMALL if small else KEYS):
        for v in ((V1, V1B, VF, None) if small else (V1, V1B, V2, VF, None)):
            ops.append(('register', 0, req, pi, nm, v))
        for v in ((None, V1) if small else (None, V1, V1B)):
            ops.append(('unregister', 0, req, pi, nm, v))
    for (req, pi) in (SUBKEYS[:1] if small else SUBKEYS):
        for v in (V1, V1B):
            ops.append(('subscribe', 0, req, pi, '', v))
        for v in (V1, None):
            ops.append(('unsubscribe', 0, req, pi, '', v))
    ops.append(('rebuild', 0))
    return ops


def _norm_req(u, req):
    return tuple(id(u.Interface) if x is None else id(x) for x in req)


def check_bookkeeping(u, reg, model, hist):
    pool = u.req_pool()
    for (req, pi, nm) in KEYS:
        required = [pool[q] for q in req]
        cur = model.adapters[0].get(M.Model._k(required, u.P[pi], nm))
        exp = cur[3] if cur else None
        got = reg.registered(required, u.P[pi], nm)
        if got is not exp:
            raise Violation('history [%s]: registered(%s, P%d, %r) returns %r, the last value registered and not since unregistered is %r' % (
                hist, [u.req_names()[q] for q in req], pi, nm, got, exp), signature='C09:registered')
    exp = sorted((_norm_req(u, e[0]), id(e[1]), e[2], id(e[3])) for e in model.adapters[0].values())
    got = sorted((tuple(id(x) for x in r), id(p), n, id(v)) for (r, p, n, v) in reg.allRegistrations())
    if got != exp:
        raise Violation('history [%s]: allRegistrations() lists %d entries, the live registrations are %d (or they differ)' % (
            hist, len(got), len(exp)), signature='C09:allRegistrations')
    exp = sorted((_norm_req(u, s[0]), id(s[1]) if s[1] is not None else 0, id(s[2])) for s in model.subs[0])
    got = sorted((tuple(id(x) for x in r), id(p) if p is not None else 0, id(v)) for (r, p, v) in reg.allSubscriptions())
    if got != exp:
        raise Violation('history [%s]: allSubscriptions() lists %d entries, the live subscriptions are %d (or they differ)' % (
            hist, len(got), len(exp)), signature='C09:allSubscriptions')
    for (req, pi) in SUBKEYS:
        required = [pool[q] for q in req]
        prov = u.P[pi] if pi is not None else None
        k = M.Model._k(required, prov)
        live = [s[2] for s in model.subs[0] if M.Model._k(s[0], s[1]) == k]
        for tag in (V1, V1B, V2):
            v = u.val(*tag) if isinstance(tag, tuple) else u.val(tag)
            exp = v if any(x == v for x in live) else None
            got = reg.subscribed(required, prov, v)
            if got is not exp:
                raise Violation('history [%s]: subscribed(%s, %s, %r) returns %r, expected %r' % (
                    hist, [u.req_names()[q] for q in req], pi, v, got, exp), signature='C09:subscribed')


def check_lookups(u, reg, model, hist, arities, what):
    """Every unambiguous lookup (exactly one admissible winner) and every subscriptions() multiset/order."""
    pool = u.lookup_pool()
    sentinel = object()
    for a in arities:
        idx = range(len(pool)) if a < 2 else (1, 3, 4, 6)
        for combo in itertools.product(idx, repeat=a):
            specs = [pool[c] for c in combo]
            for pi, p in enumerate(u.P):
                for nm in ('', 'n'):
                    adm = M.lookup_admissible(model, u, 0, specs, p, nm)
                    got = reg.lookup(specs, p, nm, sentinel)
                    ctx = 'history [%s]: %s.lookup((%s), P%d, %r)' % (hist, what, ', '.join(u.lookup_names()[c] for c in combo), pi, nm)
                    if not adm:
                        if got is not sentinel:
                            raise Violation('%s returned %r, nothing live applies' % (ctx, got), signature='C09:lookup-after')
                    elif not any(got is v for v in adm):
                        raise Violation('%s returned %r, live registrations admit %r' % (ctx, got, adm), signature='C09:lookup-after')
                exp = M.subscriptions_expected(model, u, 0, specs, p)
                err = M.check_subscriptions(reg.subscriptions(specs, p), exp, 'history [%s]: %s.subscriptions' % (hist, what))
                if err:
                    raise Violation(err, signature='C09:subscriptions-after')
            exp = M.subscriptions_expected(model, u, 0, specs, None)
            err = M.check_subscriptions(reg.subscriptions(specs, None), exp, 'history [%s]: %s handlers' % (hist, what))
            if err:
                raise Violation(err, signature='C09:subscriptions-after')


def run_history(flavour, ops):
    from zope.interface.adapter import AdapterRegistry, VerifyingAdapterRegistry
    u = M.RegUniverse(flavour=flavour, nregs=1)
    model = M.Model(1)
    reg = u.regs[0]
    arities = sorted({len(op[2]) for op in ops if len(op) > 2} | {1})
    for k, op in enumerate(ops):
        gen0 = reg._generation
        before = dict(model.adapters[0]), list(model.subs[0])
        RP.apply_op(u, model, op)
        hist = RP.fmt(ops[:k + 1])
        check_bookkeeping(u, reg, model, hist)
        if k == len(ops) - 1 or op[0] == 'rebuild':
            check_lookups(u, reg, model, hist, arities, 'registry')
        if op[0] == 'register' and (dict(model.adapters[0]), list(model.subs[0])) == before and op[5] is not None and \
                reg._generation != gen0:
            # identical re-registration: documented no-op (no invalidation needed, none performed)
            cur = before[0].get(M.Model._k([u.req_pool()[q] for q in op[2]], u.P[op[3]], op[4]))
            val = (u.val(op[5][1], falsy=True) if op[5][0] == 'FALSY' else u.val(*op[5])) if isinstance(op[5], tuple) else u.val(op[5])
            if cur is not None and cur[3] is val:
                raise Violation('history [%s]: re-registering the identical object was not a no-op (generation bumped)' % hist,
                                signature='C09:identical-reregistration-not-noop')
    hist = RP.fmt(ops)
    # replay the listings into an empty registry
    cls = AdapterRegistry if flavour == 'adapter' else VerifyingAdapterRegistry
    r2 = cls()
    for (r, p, n, v) in list(reg.allRegistrations()):
        r2.register(r, p, n, v)
    for (r, p, v) in list(reg.allSubscriptions()):
        r2.subscribe(r, p, v)
    check_bookkeeping(u, r2, model, hist + ' -> replayed into an empty registry')
    check_lookups(u, r2, model, hist, arities, 'replayed registry')
    # rebuild() in place
    reg.rebuild()
    check_bookkeeping(u, reg, model, hist + ' -> rebuild()')
    check_lookups(u, reg, model, hist, arities, 'rebuilt registry')


def make_e(params, part, nparts):
    alpha = alphabet(params.get('small', False))
    NA = len(alpha)
    L = params['L']
    flavour = params.get('flavour', 'adapter')

    def h(n: int, o1: int, o2: int, o3: int, o4: int):
        c1 = pick(o1, NA)
        assume(c1 % nparts == part)
        ln = pick(n, L) + 1
        idx = [c1] + [pick(o, NA) for o in (o2, o3, o4)[:ln - 1]]
        ops = tuple(alpha[i] for i in idx)
        reached(tuple(idx), dict(flavour=flavour, history=RP.fmt(ops)))
        native(run_history, flavour, ops)
    return h


# ---------------------------------------------------------------------------
# S tier (inductive): one register / unregister on the real BaseAdapterRegistry from an arbitrary pre-state
# ---------------------------------------------------------------------------

class AMap:
    """==-matching association list with the mapping protocol BaseAdapterRegistry uses (never hashes its keys, so
    symbolic key identities stay symbolic)."""

    def __init__(self):
        self.items_ = []

    def get(self, key, default=None):
        for k, v in self.items_:
            if k == key:
                return v
        return default

    def __getitem__(self, key):
        for k, v in self.items_:
            if k == key:
                return v
        raise KeyError(key)

    def __setitem__(self, key, value):
        for i, (k, _v) in enumerate(self.items_):
            if k == key:
                self.items_[i] = (k, value)
                return
        self.items_.append((key, value))

    def __delitem__(self, key):
        for i, (k, _v) in enumerate(self.items_):
            if k == key:
                del self.items_[i]
                return
        raise KeyError(key)

    def __bool__(self):
        return len(self.items_) > 0

    def __len__(self):
        return len(self.items_)

    def items(self):
        return list(self.items_)


class SKey:
    """A specification stand-in whose identity is a (symbolic) integer."""
    __slots__ = ('k',)

    def __init__(self, k):
        self.k = k

    def __eq__(self, other):
        return isinstance(other, SKey) and self.k == other.k

    def __ne__(self, other):
        return not self.__eq__(other)

    __hash__ = None


def make_s_register_step(params, part, nparts):
    """Pre-state: the arity-1 registration map holds <=2 entries under symbolic key identities (which may alias each
    other and the operated key), names from {'', 'n'}, values from {v1, v1b (== v1, distinct), v2}; the provided
    reference counts are the entry counts plus an arbitrary slack in {0, 1} (the code over-counts on overwrite; only
    'never too small' is an invariant).  One register / unregister with a symbolic key.  Post: registered() and
    allRegistrations() equal the net-effect model, no empty container is left, counts are still never too small,
    remove_extendor ran only for an interface without live entries, changed() ran iff the stored state changed."""
    from zope.interface.adapter import BaseAdapterRegistry
    vals = [M.Val('v1'), M.Val('v1b', 'v1'), M.Val('v2')]

    class StubLookup:
        def __init__(self, registry):
            self.log = []

        def changed(self, orig):
            self.log.append(('changed',))

        def add_extendor(self, p):
            self.log.append(('add', p))

        def remove_extendor(self, p):
            self.log.append(('remove', p))

        def __getattr__(self, name):          # the delegated lookup entry points are not part of this kernel
            if name.startswith('__'):
                raise AttributeError(name)
            return lambda *a, **k: None

    class Reg(BaseAdapterRegistry):
        _mappingType = AMap
        _providedType = AMap
        LookupClass = StubLookup

    def h(nent: int, op: int, r0: int, p0: int, n0: int, v0: int, s0: int, r1: int, p1: int, n1: int, v1: int,
          kr: int, kp: int, kn: int, kv: int):
        c_n = pick(nent, 3)
        c_op = pick(op, 2)
        assume((c_n * 2 + c_op) % nparts == part)
        ents = []
        for (r, p, n, v) in [(r0, p0, n0, v0), (r1, p1, n1, v1)][:c_n]:
            ents.append((r, p, 'n' if pick(n, 2) else '', vals[pick(v, 3)]))
        if c_n == 2:      # representation invariant: one value per (required, provided, name)
            a, b = ents
            assume(not (a[0] == b[0] and a[1] == b[1] and a[2] == b[2]))
        reg = Reg()
        reg._v_lookup.log[:] = []
        level1 = AMap()
        for (r, p, n, v) in ents:
            d1 = level1.get(SKey(r))
            if d1 is None:
                d1 = AMap()
                level1[SKey(r)] = d1
            d2 = d1.get(SKey(p))
            if d2 is None:
                d2 = AMap()
                d1[SKey(p)] = d2
            d2[n] = v
            cnt = reg._provided.get(SKey(p), 0)
            reg._provided[SKey(p)] = cnt + 1
        if c_n:
            reg._adapters.append(AMap())
            reg._adapters.append(level1)
            slack = pick(s0, 2)
            if slack:     # an earlier overwrite counted the first provided interface once more
                reg._provided[SKey(ents[0][1])] = reg._provided[SKey(ents[0][1])] + 1
        name = 'n' if pick(kn, 2) else ''
        kvi = pick(kv, 4)
        value = None if kvi == 3 else vals[kvi]
        key_r, key_p = SKey(kr), SKey(kp)
        reached(None, dict(entries=len(ents), op=c_op, value=kvi))
        # net-effect model (== on the integer identities, no hashing)
        model = list(ents)

        def find(r, p, n):
            for i, e in enumerate(model):
                if e[0] == r and e[1] == p and e[2] == n:
                    return i
            return -1
        before = [(e[0], e[1], e[2], e[3]) for e in model]
        i = find(kr, kp, name)
        if c_op == 0 and value is not None:
            reg.register([key_r], key_p, name, value)
            if i >= 0:
                model[i] = (kr, kp, name, value)
            else:
                model.append((kr, kp, name, value))
        else:
            if c_op == 0:
                reg.register([key_r], key_p, name, None)            # registering None unregisters
            else:
                reg.unregister([key_r], key_p, name, value)
            if i >= 0 and (value is None or model[i][3] is value):
                del model[i]
        changed_state = len(before) != len(model) or any(x[3] is not y[3] for x, y in zip(before, model))
        # registered() for the operated key and for every model entry
        cur = find(kr, kp, name)
        got = reg.registered([key_r], key_p, name)
        if got is not (model[cur][3] if cur >= 0 else None):
            raise Violation('registered() of the operated key returns %r, net effect %r' % (got, model[cur][3] if cur >= 0 else None),
                            signature='C09:kernel:registered')
        for e in model:
            if reg.registered([SKey(e[0])], SKey(e[1]), e[2]) is not e[3]:
                raise Violation('registered() lost or changed another live entry', signature='C09:kernel:frame')
        listed = list(reg.allRegistrations())
        if len(listed) != len(model):
            raise Violation('allRegistrations() lists %d entries, %d are live' % (len(listed), len(model)), signature='C09:kernel:allRegistrations')
        for (req, prov, nm, val) in listed:
            if not any(req[0].k == e[0] and prov.k == e[1] and nm == e[2] and val is e[3] for e in model):
                raise Violation('allRegistrations() lists an entry that is not live', signature='C09:kernel:allRegistrations')
        # no empty container left behind
        for order, comps in enumerate(reg._adapters):
            if order == len(reg._adapters) - 1 and not comps:
                raise Violation('an empty trailing arity map was left', signature='C09:kernel:prune')
            if order == 1:
                for _k1, d1 in comps.items():
                    if not d1:
                        raise Violation('an empty container was left under a required key', signature='C09:kernel:prune')
                    for _k2, d2 in d1.items():
                        if not d2:
                            raise Violation('an empty container was left under a provided key', signature='C09:kernel:prune')
        # provided counts never too small; remove_extendor only when nothing is left
        for e in model:
            n_live = 0
            for f in model:
                if f[1] == e[1]:
                    n_live += 1
            if reg._provided.get(SKey(e[1]), 0) < n_live:
                raise Violation('the reference count of a provided interface (%r) is smaller than its %d live registrations' % (
                    reg._provided.get(SKey(e[1]), 0), n_live), signature='C09:kernel:count-too-small')
        for ev in reg._v_lookup.log:
            if ev[0] == 'remove' and any(f[1] == ev[1].k for f in model):
                raise Violation('remove_extendor ran for an interface that still has live registrations', signature='C09:kernel:extendor')
        n_changed = sum(1 for ev in reg._v_lookup.log if ev[0] == 'changed')
        if (n_changed > 0) != changed_state:
            raise Violation('changed() ran %d time(s), the stored state %s' % (n_changed, 'changed' if changed_state else 'did not change'),
                            signature='C09:kernel:changed')
    return h


def make_s_subscribe_step(params, part, nparts):
    """Inductive step for subscribe / unsubscribe on the real BaseAdapterRegistry with symbolic keys.  Pre-state: the
    arity-1 subscription map holds <=2 leaves under symbolic (required, provided) identities (which may alias the operated
    key), each a tuple of 1..2 values from {v1, v1b (== v1, distinct), v2}; optionally one arity-2 subscription and/or one
    arity-0 subscription exist (so pruning a whole arity level must not disturb the others); provided counts = number of
    subscribed values.  One subscribe / unsubscribe(value) / unsubscribe(None) with a symbolic arity-1 key.  Post:
    allSubscriptions() is the net-effect multiset in order, subscribed() agrees, the other arity levels are untouched, no
    empty container is left, counts equal the live values, remove_extendor only without live values, changed() iff changed."""
    from zope.interface.adapter import BaseAdapterRegistry
    vals = [M.Val('v1'), M.Val('v1b', 'v1'), M.Val('v2')]

    class StubLookup:
        def __init__(self, registry):
            self.log = []

        def changed(self, orig):
            self.log.append(('changed',))

        def add_extendor(self, p):
            self.log.append(('add', p))

        def remove_extendor(self, p):
            self.log.append(('remove', p))

        def __getattr__(self, name):
            if name.startswith('__'):
                raise AttributeError(name)
            return lambda *a, **k: None

    class Reg(BaseAdapterRegistry):
        _mappingType = AMap
        _providedType = AMap
        LookupClass = StubLookup

    R2A, R2B, P2, P0 = SKey(-101), SKey(-102), SKey(-103), SKey(-104)     # keys of the other arity levels (never alias: assumed below)

    def h(nleaf: int, op: int, r0: int, p0: int, a0: int, b0: int, l0: int, r1: int, p1: int, a1: int, b1: int, l1: int,
          kr: int, kp: int, kv: int, other: int):
        c_n = pick(nleaf, 3)
        c_op = pick(op, 3)
        assume((c_n * 3 + c_op) % nparts == part)
        c_other = pick(other, 4)           # bit 0: an arity-2 subscription exists; bit 1: an arity-0 subscription exists
        for x in (r0, p0, r1, p1, kr, kp):
            assume(x >= 0)
        leaves = []
        for (r, p, a, b, ln) in [(r0, p0, a0, b0, l0), (r1, p1, a1, b1, l1)][:c_n]:
            vs = [vals[pick(a, 3)]]
            if pick(ln, 2):
                vs.append(vals[pick(b, 3)])
            leaves.append((r, p, vs))
        if c_n == 2:
            assume(not (leaves[0][0] == leaves[1][0] and leaves[0][1] == leaves[1][1]))
        reg = Reg()
        reg._v_lookup.log[:] = []

        def put(level, keys, values):
            comps = level
            for k in keys:
                d = comps.get(k)
                if d is None:
                    d = AMap()
                    comps[k] = d
                comps = d
            comps[''] = tuple(values)
            reg._provided[keys[-1]] = reg._provided.get(keys[-1], 0) + len(values)
        top = 1 if (c_n or c_other) else 0
        if c_other & 1:
            top = 3
        elif c_n:
            top = 2
        for _ in range(top):
            reg._subscribers.append(AMap())
        for (r, p, vs) in leaves:
            put(reg._subscribers[1], [SKey(r), SKey(p)], vs)
        if c_other & 1:
            put(reg._subscribers[2], [R2A, R2B, P2], [vals[2]])
        if c_other & 2:
            put(reg._subscribers[0], [P0], [vals[0]])
        kvi = pick(kv, 3)
        value = vals[kvi]
        key_r, key_p = SKey(kr), SKey(kp)
        reached(None, dict(leaves=c_n, op=c_op, other=c_other))
        model = [(r, p, list(vs)) for (r, p, vs) in leaves]

        def find(r, p):
            for i, e in enumerate(model):
                if e[0] == r and e[1] == p:
                    return i
            return -1
        before = [list(e[2]) for e in model]
        n_before = len(model)
        i = find(kr, kp)
        if c_op == 0:
            reg.subscribe([key_r], key_p, value)
            if i >= 0:
                model[i][2].append(value)
            else:
                model.append((kr, kp, [value]))
        else:
            if c_op == 1:
                reg.unsubscribe([key_r], key_p, value)
                if i >= 0:
                    model[i] = (model[i][0], model[i][1], [v for v in model[i][2] if not (v == value)])
            else:
                reg.unsubscribe([key_r], key_p)
                if i >= 0:
                    model[i] = (model[i][0], model[i][1], [])
            if i >= 0 and not model[i][2]:
                del model[i]
        after = [list(e[2]) for e in model]
        changed_state = n_before != len(model) or len(before) != len(after) or any(
            len(x) != len(y) or any(a is not b for a, b in zip(x, y)) for x, y in zip(before, after))
        # allSubscriptions(): exactly the live values, per leaf in subscription order
        listed = list(reg.allSubscriptions())
        exp_total = sum(len(e[2]) for e in model) + (1 if c_other & 1 else 0) + (1 if c_other & 2 else 0)
        if len(listed) != exp_total:
            raise Violation('allSubscriptions() lists %d values, %d are live' % (len(listed), exp_total), signature='C09:kernel:allSubscriptions')
        for e in model:
            got = [v for (req, prov, v) in listed if len(req) == 1 and req[0].k == e[0] and prov.k == e[1]]
            if len(got) != len(e[2]) or any(a is not b for a, b in zip(got, e[2])):
                raise Violation('allSubscriptions() for a live key lists %r, net effect %r' % (got, e[2]), signature='C09:kernel:allSubscriptions')
            for v in e[2]:
                if reg.subscribed([SKey(e[0])], SKey(e[1]), v) is None:
                    raise Violation('subscribed() does not find a live subscription', signature='C09:kernel:subscribed')
        cur = find(kr, kp)
        live_here = model[cur][2] if cur >= 0 else []
        got = reg.subscribed([key_r], key_p, value)
        if (got is not None) != any(v == value for v in live_here):
            raise Violation('subscribed() of the operated key and value returns %r, live values %r' % (got, live_here), signature='C09:kernel:subscribed')
        # the other arity levels are untouched
        if c_other & 1 and reg.subscribed([R2A, R2B], P2, vals[2]) is None:
            raise Violation('an arity-2 subscription was lost by an arity-1 %s' % ('subscribe', 'unsubscribe', 'unsubscribe-all')[c_op],
                            signature='C09:kernel:frame')
        if c_other & 2 and reg.subscribed([], P0, vals[0]) is None:
            raise Violation('an arity-0 subscription was lost by an arity-1 operation', signature='C09:kernel:frame')
        # pruning
        subs = reg._subscribers
        if subs and not subs[-1]:
            raise Violation('an empty trailing arity map was left', signature='C09:kernel:prune')
        if len(subs) > 1:
            for _k1, d1 in subs[1].items():
                if not d1:
                    raise Violation('an empty container was left under a required key', signature='C09:kernel:prune')
                for _k2, d2 in d1.items():
                    if not d2 or not d2.get(''):
                        raise Violation('an empty container / empty leaf was left under a provided key', signature='C09:kernel:prune')
        # counts: one per subscribed value
        for e in model:
            n_live = 0
            for f in model:
                if f[1] == e[1]:
                    n_live += len(f[2])
            if reg._provided.get(SKey(e[1]), 0) != n_live:
                raise Violation('the reference count of a provided interface is %r with %d live subscriptions' % (
                    reg._provided.get(SKey(e[1]), 0), n_live), signature='C09:kernel:count')
        for ev in reg._v_lookup.log:
            if ev[0] == 'remove' and any(f[1] == ev[1].k for f in model):
                raise Violation('remove_extendor ran for an interface that still has live subscriptions', signature='C09:kernel:extendor')
        if cur < 0 and i >= 0 and not any(f[1] == kp for f in model):
            if not any(ev[0] == 'remove' for ev in reg._v_lookup.log) or reg._provided.get(key_p, 0) != 0:
                raise Violation('the last subscription of a provided interface was removed but it is still counted / an extendor',
                                signature='C09:kernel:extendor')
        n_changed = sum(1 for ev in reg._v_lookup.log if ev[0] == 'changed')
        if (n_changed > 0) != changed_state:
            raise Violation('changed() ran %d time(s), the stored subscriptions %s' % (n_changed, 'changed' if changed_state else 'did not change'),
                            signature='C09:kernel:changed')
    return h


_ENC = ['zope.interface.adapter:BaseAdapterRegistry.register', 'zope.interface.adapter:BaseAdapterRegistry.unregister',
        'zope.interface.adapter:BaseAdapterRegistry._find_leaf', 'zope.interface.adapter:BaseAdapterRegistry.registered',
        'zope.interface.adapter:BaseAdapterRegistry._all_entries', 'zope.interface.adapter:BaseAdapterRegistry.allRegistrations',
        'zope.interface.adapter:BaseAdapterRegistry.allSubscriptions', 'zope.interface.adapter:BaseAdapterRegistry.subscribed',
        'zope.interface.adapter:BaseAdapterRegistry.subscribe', 'zope.interface.adapter:BaseAdapterRegistry.unsubscribe',
        'zope.interface.adapter:BaseAdapterRegistry.rebuild']

_OR = ('dictionary/list model of the net effect (register overwrites by key, None unregisters, unregister(value) only removes the identical '
       'object, unsubscribe(value) removes all equal ones); registered()/allRegistrations()/allSubscriptions()/subscribed() after every op; '
       'every lookup and subscriptions() against the model; at the end the listings are replayed into an empty registry and the '
       'registry is rebuilt in place, both must answer every unambiguous lookup identically')

HARNESSES = [
    Harness('e_book', make_e, kind='E', impls=('py',),
            tiers=dict(quick=dict(budget_s=150, parts=16, params=dict(L=2)),
                       thorough=dict(budget_s=3000, parts=16, params=dict(L=2, flavour='verifying'))),
            encoded=_ENC,
            bounds='one registry; every history of <=2 ops from 77: register of v1 / v1b (== v1, distinct) / v2 / a falsy value / None and unregister of any / v1 / '
                   'v1b on 8 keys (arity 0-2, None as required, two provided, named), subscribe/unsubscribe on 3 keys (incl. handlers), rebuild',
            outside='histories longer than the bound; _provided reference counts are only required never to reach zero early (over-counts are unobservable)',
            oracle=_OR),
    Harness('e_book_deep', make_e, kind='E', impls=('py',),
            tiers=dict(quick=dict(budget_s=150, parts=16, params=dict(L=3, small=True)),
                       thorough=dict(budget_s=3000, parts=16, params=dict(L=4, small=True))),
            encoded=_ENC,
            bounds='every history of <=3 (thorough 4) ops from a 29-op alphabet (4 keys incl. an arity-2 one, one subscription key, rebuild): covers '
                   'overwrite-then-unregister, pruning of emptied nested containers while sibling keys remain, rebuild after mixed histories',
            oracle=_OR),
    Harness('s_register_step', make_s_register_step, kind='S', impls=('py',),
            tiers=dict(quick=dict(budget_s=150, parts=6, ppt=40, params={}), thorough=dict(budget_s=1500, parts=6, ppt=60, params={})),
            encoded=_ENC[:6],
            bounds='inductive step on the real BaseAdapterRegistry (arity 1): arbitrary pre-state of <=2 entries under symbolic key identities '
                   '(aliasing allowed), names "" / "n", values v1 / v1b (== v1) / v2, provided counts = entry counts + slack {0,1}; one '
                   'register (value or None) or unregister (any / v1 / v1b / v2) with a symbolic key',
            outside='arity other than 1; more than 2 pre-existing entries; subscriptions (E tier)',
            oracle='net-effect model over the integer identities; registered(), allRegistrations(), no empty containers, counts never too '
                   'small, remove_extendor only without live entries, changed() iff the stored state changed',
            stubs=['nested dicts and the provided-count dict replaced by ==-matching association lists', 'specification stand-ins with symbolic identity',
                   'recording LookupClass'],
            assumptions=['representation invariant of the pre-state: one value per key, no empty containers, counts >= entries']),
    Harness('s_subscribe_step', make_s_subscribe_step, kind='S', impls=('py',),
            tiers=dict(quick=dict(budget_s=150, parts=9, ppt=40, params={}), thorough=dict(budget_s=1500, parts=9, ppt=60, params={})),
            encoded=['zope.interface.adapter:BaseAdapterRegistry.subscribe', 'zope.interface.adapter:BaseAdapterRegistry.unsubscribe',
                     'zope.interface.adapter:BaseAdapterRegistry.subscribed', 'zope.interface.adapter:BaseAdapterRegistry.allSubscriptions',
                     'zope.interface.adapter:BaseAdapterRegistry._find_leaf', 'zope.interface.adapter:BaseAdapterRegistry._all_entries'],
            bounds='inductive step on the real BaseAdapterRegistry: arbitrary pre-state of <=2 arity-1 leaves under symbolic key identities '
                   '(aliasing allowed) holding 1..2 values from v1 / v1b (== v1) / v2, with or without one arity-2 and one arity-0 subscription; '
                   'one subscribe / unsubscribe(value) / unsubscribe(all) with a symbolic arity-1 key',
            outside='operations at arity other than 1; more than 2 leaves; provided=None handlers (E tier)',
            oracle='net-effect model: allSubscriptions() per key in order, subscribed(), other arity levels untouched, no empty containers, '
                   'counts == live values, remove_extendor exactly when the last value goes, changed() iff the stored state changed',
            stubs=['nested dicts and the provided-count dict replaced by ==-matching association lists', 'specification stand-ins with symbolic identity',
                   'recording LookupClass'],
            assumptions=['representation invariant of the pre-state: no empty containers or leaves, counts == subscribed values']),
]

for _k in HARNESSES:
    if _k.name in ('s_register_step', 's_subscribe_step'):
        _k.stub_kernel = True      # drives private functions / extension points with stub containers (see vlib.runner)

MANIFEST = {
    'engine': 'symx',
    'technique': 'symbolic execution (CrossHair engine + z3) over solver-enumerated register/unregister/subscribe/unsubscribe/rebuild histories '
                 '(equal-but-distinct values, overwrites, None) on a real registry; model of the net effect; replay and rebuild differential',
    'text': 'Bounded-exhaustive over every mutation history up to the bound; after every step every bookkeeping view and every lookup is '
            'compared with the net-effect model, and at the end the listings are replayed into an empty registry and the registry is rebuilt. '
            'The nested-container and reference-count state makes outcomes history dependent; small histories over few keys cover the '
            'overwrite/prune/rebuild interactions.',
    'note': 'Trusted: the net-effect model (30 lines in vlib/regmodel.py). The registry code has no C twin for bookkeeping (lookups do; C05/C08 cover them).',
}
