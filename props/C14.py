"""C14 Calling an interface follows the PEP 246 adaptation order."""
import json
import os

from vlib.harness import Harness
from vlib.symx import Violation, assume, native, pick, reached

CONFORM = ['absent', 'returns-None', 'returns-value', 'returns-falsy', 'raises-RuntimeError',
           'raises-AttributeError-in-call', 'raises-TypeError-in-call', 'getattr-raises-ValueError',
           'getattr-raises-AttributeError',
           # the same behaviours reached through the instance __dict__ / a class __getattr__ instead of a class attribute
           'instance-returns-None', 'instance-returns-value', 'instance-raises-RuntimeError', 'dunder-getattr-returns-value']
HOOK = ['None', 'value', 'falsy', 'raises',
        # hooks that change the list they are called from (the documented loop is `for hook in adapter_hooks`, i.e. the live list)
        'None-drops-rest', 'None-appends-late',
        # a hook that adapts another object to another interface before declining (adaptation is re-entrant: hooks adapt)
        'None-after-nested-adaptation']
CUSTOM = ['absent', 'returns-None', 'returns-value', 'returns-falsy', 'raises', 'calls-super',
          'inherited-plain', 'inherited-with-other-interfacemethod']
ALT = ['not-given', 'object', 'None']
ENTRY = ['call', 'adapt']


class _Falsy:
    def __init__(self, tag):
        self.tag = tag

    def __bool__(self):
        return False

    def __len__(self):
        return 0

    def __repr__(self):
        return '<falsy %s>' % self.tag


class _Val:
    def __init__(self, tag):
        self.tag = tag

    def __repr__(self):
        return '<val %s>' % self.tag


class _Boom(Exception):
    pass


def run_case(case, trace=False):
    (conform, provided, hooks, custom, alt, entry) = case
    from zope.interface import Interface, implementer, interfacemethod
    from zope.interface import interface as zi
    log = []
    V = {k: _Val(k) for k in ('conform', 'custom', 'alt', 'h0', 'h1', 'h2', 'late')}
    F = {k: _Falsy(k) for k in ('conform', 'custom', 'h0', 'h1', 'h2')}

    def custom_body(self, obj):
        log.append('custom')
        k = CUSTOM[custom]
        if k == 'returns-None':
            return None
        if k in ('returns-value', 'inherited-plain', 'inherited-with-other-interfacemethod'):
            return V['custom']
        if k == 'returns-falsy':
            return F['custom']
        if k == 'raises':
            raise _Boom('custom')
        if k == 'calls-super':
            return super(type(self), self).__adapt__(obj)
        raise AssertionError

    if CUSTOM[custom] == 'absent':
        class I(Interface):
            pass
    elif CUSTOM[custom] in ('inherited-plain', 'inherited-with-other-interfacemethod'):
        class IBase(Interface):
            @interfacemethod
            def __adapt__(self, obj):
                return custom_body(self, obj)
        if CUSTOM[custom] == 'inherited-plain':
            class I(IBase):
                pass
        else:
            class I(IBase):
                @interfacemethod
                def extra(self):
                    return 'extra'
    else:
        class I(Interface):
            @interfacemethod
            def __adapt__(self, obj):
                return custom_body(self, obj)

    class Ob:
        pass
    ck_full = CONFORM[conform]
    ck = ck_full.replace('instance-', '').replace('dunder-getattr-', '')
    where = 'instance' if ck_full.startswith('instance-') else ('getattr' if ck_full.startswith('dunder-getattr-') else 'class')
    conform_fn = None
    if ck in ('getattr-raises-ValueError', 'getattr-raises-AttributeError'):
        def getter(self):
            log.append('conform-get')
            raise (ValueError if ck == 'getattr-raises-ValueError' else AttributeError)('conform')
        Ob.__conform__ = property(getter)
    elif ck != 'absent':
        def conform_fn(iface):
            log.append('conform-call')
            if iface is not I:
                raise AssertionError('conform called with %r' % (iface,))
            if ck == 'returns-None':
                return None
            if ck == 'returns-value':
                return V['conform']
            if ck == 'returns-falsy':
                return F['conform']
            if ck == 'raises-RuntimeError':
                raise RuntimeError('conform')
            if ck == 'raises-AttributeError-in-call':
                raise AttributeError('inside conform')
            if ck == 'raises-TypeError-in-call':
                raise TypeError('inside conform')
        if where == 'class':
            def __conform__(self, iface):
                return conform_fn(iface)
            Ob.__conform__ = __conform__
        elif where == 'getattr':
            def __getattr__(self, name):
                if name == '__conform__':
                    return conform_fn
                raise AttributeError(name)
            Ob.__getattr__ = __getattr__
    if provided:
        Ob = implementer(I)(Ob)
    ob = Ob()
    if where == 'instance':
        ob.__conform__ = conform_fn

    nested = {'on': False}

    class INested(Interface):
        pass

    def mkhook(i, kind):
        def hook(iface, obj):
            if nested['on']:
                return None             # the nested adaptation of another object: every hook declines, silently
            log.append('hook%d' % i)
            if iface is not I or obj is not ob:
                raise AssertionError('hook args')
            if kind == 'None':
                return None
            if kind == 'value':
                return V['h%d' % i]
            if kind == 'falsy':
                return F['h%d' % i]
            if kind == 'None-drops-rest':
                del zi.adapter_hooks[zi.adapter_hooks.index(hook) + 1:]
                return None
            if kind == 'None-appends-late':
                zi.adapter_hooks.append(late_hook)
                return None
            if kind == 'None-after-nested-adaptation':
                nested['on'] = True
                try:
                    if INested(object(), None) is not None:
                        raise AssertionError('nested adaptation')
                finally:
                    nested['on'] = False
                return None
            raise _Boom('hook%d' % i)
        return hook

    def late_hook(iface, obj):
        if nested['on']:
            return None
        log.append('hook-late')
        return V['late']
    hook_fns = [mkhook(i, HOOK[k]) for i, k in enumerate(hooks)]

    # ---- reference: PEP 246 order, as an event log + outcome -------------------
    elog = []

    def ref():
        if entry == 0:
            if ck == 'getattr-raises-ValueError':
                elog.append('conform-get')
                return ('raise', 'ValueError')
            if ck == 'getattr-raises-AttributeError':
                elog.append('conform-get')
            elif ck != 'absent':
                elog.append('conform-call')
                if ck == 'returns-value':
                    return ('ret', V['conform'])
                if ck == 'returns-falsy':
                    return ('ret', F['conform'])
                if ck == 'raises-RuntimeError':
                    return ('raise', 'RuntimeError')
                if ck == 'raises-AttributeError-in-call':
                    return ('raise', 'AttributeError')
                if ck == 'raises-TypeError-in-call':
                    return ('raise', 'TypeError:inside conform')
        r = None

        def default_adapt():
            if provided:
                return ('ret', ob)
            live = [(i, HOOK[k]) for i, k in enumerate(hooks)]
            pos = 0
            while pos < len(live):
                i, kind = live[pos]
                pos += 1
                elog.append('hook-late' if kind == 'late' else 'hook%d' % i)
                if kind == 'late':
                    return ('ret', V['late'])
                if kind == 'value':
                    return ('ret', V['h%d' % i])
                if kind == 'falsy':
                    return ('ret', F['h%d' % i])
                if kind == 'raises':
                    return ('raise', '_Boom')
                if kind == 'None-drops-rest':
                    del live[pos:]
                if kind == 'None-appends-late':
                    live.append((None, 'late'))
            return ('ret', None)
        c = CUSTOM[custom]
        if c == 'absent':
            r = default_adapt()
        else:
            elog.append('custom')
            if c == 'returns-None':
                r = ('ret', None)
            elif c in ('returns-value', 'inherited-plain', 'inherited-with-other-interfacemethod'):
                r = ('ret', V['custom'])
            elif c == 'returns-falsy':
                r = ('ret', F['custom'])
            elif c == 'raises':
                r = ('raise', '_Boom')
            else:
                r = default_adapt()
        if r[0] == 'raise':
            return r
        if entry == 1:
            return r
        if r[1] is not None:
            return r
        if ALT[alt] == 'object':
            return ('ret', V['alt'])
        if ALT[alt] == 'None':
            return ('ret', None)
        return ('raise', 'TypeError:Could not adapt')
    expected = ref()

    saved = list(zi.adapter_hooks)
    zi.adapter_hooks[:] = hook_fns
    try:
        try:
            if entry == 1:
                got = ('ret', I.__adapt__(ob))
            elif ALT[alt] == 'not-given':
                got = ('ret', I(ob))
            elif ALT[alt] == 'object':
                got = ('ret', I(ob, V['alt']))
            else:
                got = ('ret', I(ob, None))
        except TypeError as e:
            got = ('raise', 'TypeError:%s' % (e.args[0] if e.args else ''))
            if e.args and e.args[0] == 'Could not adapt' and (len(e.args) != 3 or e.args[1] is not ob or e.args[2] is not I):
                raise Violation('TypeError args are not (msg, obj, iface): %r' % (e.args,), signature='C14:typeerror-args')
        except Exception as e:
            got = ('raise', type(e).__name__)
    finally:
        zi.adapter_hooks[:] = saved
    if trace:
        r = got[1]
        return [got[0], 'ob' if r is ob else repr(r), list(log)]
    desc = dict(conform=ck_full, provided=bool(provided), hooks=[HOOK[k] for k in hooks], custom=CUSTOM[custom],
                alternate=ALT[alt], entry=ENTRY[entry])
    same = (got[0] == expected[0]) and (got[1] is expected[1] if got[0] == 'ret' else got[1] == expected[1])
    if not same:
        raise Violation('%r: outcome %r, PEP 246 order gives %r (log %r)' % (desc, got, expected, log),
                        signature='C14:outcome:%s' % (CUSTOM[custom] if CUSTOM[custom].startswith('inherited') else 'order'))
    if log != elog:
        raise Violation('%r: executed steps %r, expected %r' % (desc, log, elog), signature='C14:steps')


def make_e_order(params, part, nparts):
    NH = params.get('max_hooks', 2)
    customs = params.get('customs', len(CUSTOM))

    def h(conform: int, provided: int, nhooks: int, h0: int, h1: int, h2: int, custom: int, alt: int, entry: int):
        c_conf = pick(conform, len(CONFORM))
        c_cust = pick(custom, customs)
        assume((c_conf * customs + c_cust) % nparts == part)
        n = pick(nhooks, NH + 1)
        hooks = tuple(pick(x, len(HOOK)) for x in (h0, h1, h2)[:n])
        # list-mutating hook kinds only where the hooks can run at all (the other __conform__ kinds check "never run" with the plain kinds)
        assume(all(k < 4 for k in hooks) or c_conf in (0, 1))
        case = (c_conf, pick(provided, 2), hooks, c_cust, pick(alt, 3), pick(entry, 2))
        assume(not (case[5] == 1 and case[4] != 0))  # __adapt__ takes no alternate
        reached(case, dict(conform=CONFORM[case[0]], provided=case[1], hooks=[HOOK[k] for k in hooks],
                           custom=CUSTOM[case[3]], alternate=ALT[case[4]], entry=ENTRY[case[5]]))
        native(run_case, case)
    return h


def run_registry_case(case):
    """With a registry's adapter_hook installed the result equals registry.queryAdapter(obj, I)."""
    (reg_kind, provides, named_only, factory_kind, alt) = case
    from zope.interface import Interface, implementer
    from zope.interface import interface as zi
    from zope.interface.adapter import AdapterRegistry

    class IReq(Interface):
        pass

    class ISub(IReq):
        pass

    class I(Interface):
        pass

    @implementer(ISub if provides else Interface)
    class Ob:
        pass
    ob = Ob()
    made = []

    def factory(o):
        made.append(o)
        if factory_kind == 0:
            return ('adapted', o)
        if factory_kind == 1:
            return None
        return _Falsy('adapter')
    reg = AdapterRegistry()
    if reg_kind != 0:
        reg.register([IReq if reg_kind == 1 else ISub], I, 'n' if named_only else '', factory)
    saved = list(zi.adapter_hooks)
    zi.adapter_hooks[:] = [reg.adapter_hook]
    try:
        sentinel = object()
        q = reg.queryAdapter(ob, I, default=sentinel)
        made_q = len(made)
        try:
            r = I(ob) if not alt else I(ob, sentinel)
        except TypeError:
            r = TypeError
    finally:
        zi.adapter_hooks[:] = saved
    if q is sentinel:
        exp = sentinel if alt else TypeError
    else:
        exp = q
    ok = (r == exp) if isinstance(exp, tuple) else (r is exp or (isinstance(r, _Falsy) and isinstance(exp, _Falsy)))
    if not ok:
        raise Violation('registry hook: I(ob)=%r but queryAdapter=%r (case %r)' % (r, q, case), signature='C14:registry-hook')


def make_e_registry(params, part, nparts):
    def h(reg_kind: int, provides: int, named_only: int, factory_kind: int, alt: int):
        case = (pick(reg_kind, 3), pick(provides, 2), pick(named_only, 2), pick(factory_kind, 3), pick(alt, 2))
        reached(case, dict(case=case))
        native(run_registry_case, case)
    return h



# ---------------------------------------------------------------------------------------------------------------
# Engine C (functional mode): IB__call__ / IB__adapt__ from the LLVM IR of the current C source
# ---------------------------------------------------------------------------------------------------------------

class _CallWorld:
    """Environment of IB__call__ / IB__adapt__: every C-API call that can run Python or fail is a decision; every such
    step is logged as an event, so a path summary is (ordered events with their outcomes, result, pending exception)."""

    def __init__(self, irfun, cstr, nhooks, entry):
        self.irfun, self.cstr, self.nhooks, self.entry = irfun, cstr, nhooks, entry
        P = irfun.P
        self.NONE = P('Py_None', 'none', immortal=True)
        self.ATTRERR = P('PyExc_AttributeError', 'exc', immortal=True)
        self.TYPEERR = P('PyExc_TypeError', 'exc', immortal=True)
        self.OTHERERR = P('an exception raised by called code', 'exc', immortal=True)
        self.names = {k: P(repr(v), 'attrname', immortal=True, text=v) for k, v in
                      dict(str__conform__='__conform__', str_call_conform='_call_conform', str__adapt__='__adapt__').items()}
        self.globals = {'&_Py_NoneStruct': self.NONE, 'PyExc_AttributeError': self.ATTRERR, 'PyExc_TypeError': self.TYPEERR}
        self.globals.update(self.names)
        self.globals['&IB__call__.kwlist'] = P('kwlist', 'cdata', immortal=True)
        st = dict(irfun.COMMON_STUBS)
        st.update({
            'PyArg_ParseTupleAndKeywords': self.parse, 'PyObject_GetAttr': self.getattr_,
            'PyObject_CallMethodObjArgs': self.callmethod, 'PyDict_GetItemString': self.getitemstring,
            '_get_module': lambda ex, a, site: self.MODULE, 'Py_TYPE': lambda ex, a, site: a[0].type,
            'providedBy': self.providedby, '_get_specification_base_class': lambda ex, a, site: self.SBTYPE,
            'PyObject_TypeCheck': lambda ex, a, site: 1 if getattr(a[0], 'kind', None) == 'spec' else 0,
            'PyDict_GetItem': self.dictget, 'PyObject_CallFunctionObjArgs': self.callfunction, 'PyObject_IsTrue': self.istrue,
            'PyTuple_New': self.tuplenew, 'PyTuple_SET_ITEM': self.tupleset, '_get_adapter_hooks': lambda ex, a, site: ex.hooks,
            'PyList_GET_SIZE': lambda ex, a, site: len(a[0].items), 'PyList_GET_ITEM': lambda ex, a, site: a[0].items[a[1]],
            'PyObject_CallObject': self.callobject, 'Py_BuildValue': self.buildvalue,
        })
        self.stubs = st

    STUB_DOC = {
        'PyArg_ParseTupleAndKeywords': '"O|O": fails (exception set) or stores obj and, decided per path, alternate (borrowed references)',
        'PyObject_GetAttr': 'obj.__conform__: a callable (new reference) / the value None / raises AttributeError / raises another exception',
        'PyObject_CallMethodObjArgs': 'self._call_conform(conform) or self.__adapt__(obj): raises / returns None / returns a value (new reference)',
        'PyDict_GetItemString': 'type(self).__dict__ has _CALL_CUSTOM_ADAPT or not (borrowed reference)',
        'providedBy': 'the module-level C providedBy(obj): fails / a specification (implied dict present, or NULL) / a non-specification (proxy); new reference',
        'PyDict_GetItem': 'implied.get(self): present or absent (borrowed)',
        'PyObject_CallFunctionObjArgs': 'proxy(self): raises / returns an object (new reference)',
        'PyObject_IsTrue': 'truth of the proxy answer: 0 / 1 / -1 with an exception set',
        'PyTuple_New / PyTuple_SET_ITEM': 'new 2-tuple; SET_ITEM steals the reference (allocation failure outside the claim)',
        '_get_adapter_hooks / PyList_GET_SIZE / PyList_GET_ITEM': 'the adapter_hooks list of the module state: 0..3 hooks (borrowed items)',
        'PyObject_CallObject': 'hook(self, obj): raises / returns None / returns a value (new reference)',
        'Py_BuildValue': 'new tuple of the given arguments (format "sOO")',
        '_get_module / _get_specification_base_class / Py_TYPE': 'module state lookups, assumed not to fail',
    }

    def setup(self, ex):
        P = self.irfun.P
        self.MODULE = P('module', 'module', immortal=True)
        self.SBTYPE = P('SpecificationBase type', 'type', immortal=True)
        tp = P('type(self)', 'type', immortal=True)
        tp.fields[('%struct._typeobject', (31,))] = P('type(self).__dict__', 'dict', immortal=True)
        me = ex.track(P('self', 'IB', type=tp))
        me.fields[('%struct._object', (1,))] = tp
        ex.me = me
        ex.obj = ex.track(P('obj', 'object'))
        ex.alt = None
        ex.hooks = P('adapter_hooks', 'list', immortal=True, items=[ex.track(P('hook%d' % i, 'callable')) for i in range(self.nhooks)])
        ex.log = []
        self.NONE.frame = 0            # None is immortal on this interpreter (3.12): its references are not part of the balance
        if self.entry == 'IB__adapt__':
            return [me, ex.obj]
        return [me, P('args', 'tuple', immortal=True), P('kwargs', 'dict', immortal=True)]

    def field(self, ex, base, struct, path):
        if base.kind == 'spec' and struct == '%struct.SB':
            return base.implied
        if base.kind == 'list' and struct == '%struct.PyListObject' and path == (1,):
            return self.irfun.P('%s.ob_item' % base.label, 'array', immortal=True, items=base.items)      # PyList_GET_ITEM
        raise self.irfun.Inconclusive('unmodelled field %s%r of %r' % (struct, path, base))

    def ev(self, ex, name, outcome):
        ex.log.append((name, outcome))
        ex.events.append((name, outcome))

    def new(self, ex, label, kind='object', **kw):
        o = ex.track(self.irfun.P(label, kind, **kw))
        o.frame += 1
        return o

    def parse(self, ex, a, site):
        fmt = self.cstr.get(a[2][1]) if isinstance(a[2], tuple) else None
        if fmt != 'O|O':
            raise self.irfun.Inconclusive('argument format %r' % (fmt,))
        c = ex.decide('arguments', ['(obj)', '(obj, alternate)', 'do not parse'])
        if c == 'do not parse':
            ex.err = self.TYPEERR
            self.ev(ex, 'parse', 'fails')
            return 0
        a[4].fields[('', ())] = ex.obj
        if 'alternate' in c:
            ex.alt = ex.track(self.irfun.P('alternate', 'object'))
            a[5].fields[('', ())] = ex.alt
        self.ev(ex, 'parse', c)
        return 1

    def getattr_(self, ex, a, site):
        ob, name = a
        if ob is not ex.obj or name.text != '__conform__':
            raise self.irfun.Inconclusive('GetAttr(%r, %r)' % (ob, name))
        c = ex.decide('obj.__conform__', ['a callable', 'is None', 'raises AttributeError', 'raises another exception'])
        self.ev(ex, 'getattr __conform__', c)
        if c == 'a callable':
            return self.new(ex, 'conform', 'callable')
        if c == 'is None':
            self.NONE.frame += 1
            return self.NONE
        ex.err = self.ATTRERR if 'AttributeError' in c else self.OTHERERR
        return None

    def _outcome(self, ex, what, label):
        c = ex.decide(what, ['returns None', 'returns a value', 'raises'])
        self.ev(ex, what, c)
        if c == 'raises':
            ex.err = self.OTHERERR
            return None
        if c == 'returns None':
            self.NONE.frame += 1
            return self.NONE
        return self.new(ex, label)

    def callmethod(self, ex, a, site):
        me, name = a[0], a[1]
        if me is not ex.me or a[-1] is not None:
            raise self.irfun.Inconclusive('CallMethodObjArgs shape')
        if name.text == '_call_conform':
            if len(a) != 4 or getattr(a[2], 'label', None) != 'conform':
                return self._bad(ex, 'self._call_conform called with %r' % (a[2:-1],))
            return self._outcome(ex, 'self._call_conform(conform)', 'result of __conform__')
        if name.text == '__adapt__':
            if len(a) != 4 or a[2] is not ex.obj:
                return self._bad(ex, 'self.__adapt__ called with %r' % (a[2:-1],))
            return self._outcome(ex, 'self.__adapt__(obj)', 'result of the custom __adapt__')
        raise self.irfun.Inconclusive('method %r' % name)

    def _bad(self, ex, msg):
        raise self.irfun.Defect(msg)

    def getitemstring(self, ex, a, site):
        key = self.cstr.get(a[1][1]) if isinstance(a[1], tuple) else None
        if a[0].label != 'type(self).__dict__' or key != '_CALL_CUSTOM_ADAPT':
            raise self.irfun.Inconclusive('GetItemString(%r, %r)' % (a[0], key))
        c = ex.decide('type(self) has a custom __adapt__ (_CALL_CUSTOM_ADAPT)', ['no', 'yes'])
        self.ev(ex, 'custom-adapt flag', c)
        return self.irfun.P('flag', 'object', immortal=True) if c == 'yes' else None

    def providedby(self, ex, a, site):
        if a[1] is not ex.obj:
            return self._bad(ex, 'providedBy called with %r' % (a[1],))
        c = ex.decide('providedBy(obj)', ['a specification', 'a specification without _implied', 'a proxy (not a specification)', 'raises'])
        self.ev(ex, 'providedBy(obj)', c)
        if c == 'raises':
            ex.err = self.OTHERERR
            return None
        if c.startswith('a specification'):
            implied = None if 'without' in c else self.irfun.P('decl._implied', 'dict', immortal=True)
            return self.new(ex, 'decl', 'spec', implied=implied)
        return self.new(ex, 'decl', 'proxy')

    def dictget(self, ex, a, site):
        if getattr(a[0], 'label', '') != 'decl._implied' or a[1] is not ex.me:
            raise self.irfun.Inconclusive('PyDict_GetItem(%r, %r)' % (a[0], a[1]))
        c = ex.decide('self in providedBy(obj)._implied', ['no', 'yes'])
        self.ev(ex, 'provided?', c)
        return self.irfun.P('implied entry', 'object', immortal=True) if c == 'yes' else None

    def callfunction(self, ex, a, site):
        if getattr(a[0], 'kind', None) != 'proxy' or a[1] is not ex.me or a[-1] is not None:
            raise self.irfun.Inconclusive('CallFunctionObjArgs shape')
        c = ex.decide('proxy(self)', ['returns an object', 'raises'])
        self.ev(ex, 'proxy(self)', c)
        if c == 'raises':
            ex.err = self.OTHERERR
            return None
        return self.new(ex, 'proxy answer')

    def istrue(self, ex, a, site):
        c = ex.decide('truth of the proxy answer', ['false', 'true', 'raises'])
        self.ev(ex, 'provided?', {'false': 'no', 'true': 'yes', 'raises': 'raises'}[c])
        if c == 'raises':
            ex.err = self.OTHERERR
            return -1
        return 1 if c == 'true' else 0

    def tuplenew(self, ex, a, site):
        return self.new(ex, 'hook args', 'tuple', items=[None] * a[0])

    def tupleset(self, ex, a, site):
        t, i, v = a
        t.items[i] = v
        v.frame -= 1                 # steals the reference

    def callobject(self, ex, a, site):
        hook, args = a
        i = ex.hooks.items.index(hook) if hook in ex.hooks.items else None
        if i is None or getattr(args, 'items', None) != [ex.me, ex.obj]:
            return self._bad(ex, 'hook called as %r(%r)' % (hook, getattr(args, 'items', args)))
        return self._outcome(ex, 'hook%d(self, obj)' % i, 'result of hook%d' % i)

    def buildvalue(self, ex, a, site):
        fmt = self.cstr.get(a[0][1]) if isinstance(a[0], tuple) else None
        items = [self.cstr.get(x[1]) if isinstance(x, tuple) else x for x in a[1:]]
        return self.new(ex, 'TypeError args', 'tuple', items=items, fmt=fmt)


def _pep246_reference(w, ex_log, nhooks, entry):
    """The order the property states, as an automaton over the same event alphabet: it asks for the steps it expects, in order, and
    reads their outcomes from the C path's log.  Returns (expected outcome, None) or (None, mismatch description)."""
    log = list(ex_log)
    pos = [0]

    class Mismatch(Exception):
        pass

    def expect(name):
        if pos[0] >= len(log):
            raise Mismatch('the C path stops before the step %r that the documented order performs next' % name)
        got, outcome = log[pos[0]]
        if got != name:
            raise Mismatch('the C path performs %r where the documented order performs %r' % (got, name))
        pos[0] += 1
        return outcome

    def default_adapt():
        d = expect('providedBy(obj)')
        if d == 'raises':
            return ('raise', 'other')
        if d == 'a specification without _implied':
            return ('raise', 'any')            # an uninitialised specification: the C code returns NULL (AttributeError in Python)
        if d == 'a proxy (not a specification)':
            if expect('proxy(self)') == 'raises':
                return ('raise', 'other')
        p = expect('provided?')
        if p == 'raises':
            return ('raise', 'other')
        if p == 'yes':
            return ('ret', 'obj')
        for i in range(nhooks):
            o = expect('hook%d(self, obj)' % i)
            if o == 'raises':
                return ('raise', 'other')
            if o == 'returns a value':
                return ('ret', 'result of hook%d' % i)
        return ('ret', 'Py_None')

    def run():
        if entry == 'IB__adapt__':
            return default_adapt()
        a = expect('parse')
        if a == 'fails':
            return ('raise', 'TypeError')
        c = expect('getattr __conform__')
        if c == 'raises another exception':
            return ('raise', 'other')
        if c == 'a callable':
            o = expect('self._call_conform(conform)')
            if o == 'raises':
                return ('raise', 'other')
            if o == 'returns a value':
                return ('ret', 'result of __conform__')
        if expect('custom-adapt flag') == 'yes':
            o = expect('self.__adapt__(obj)')
            r = ('raise', 'other') if o == 'raises' else ('ret', 'result of the custom __adapt__') if o == 'returns a value' else ('ret', 'Py_None')
        else:
            r = default_adapt()
        if r[0] == 'raise' or r[1] != 'Py_None':
            return r
        if 'alternate' in a:
            return ('ret', 'alternate')
        return ('raise', 'Could not adapt')
    try:
        want = run()
    except Mismatch as e:
        return None, str(e)
    if pos[0] != len(log):
        return None, 'the C path goes on with %r after the documented order has its answer %r' % (log[pos[0]][0], want)
    return want, None


def run_ir_call(tier, ctx):
    import shutil
    import time
    from vlib import irfun
    t0 = time.time()
    agg = dict(harness='ir_call', impl='c', kind='IR', paths=0, reached=0, distinct=0, unknown=0, solver_queries=0, solver_s=0.0,
               samples=[], errors=[], exhaustive=False, jobs=[])
    out = dict(agg=agg, violations=[], harness_errors=[], replays_attempted=0, replays_reproduced=0)
    try:
        text, wd = irfun.build_ir()
    except Exception as e:
        out['harness_errors'].append('ir_call: cannot produce the IR: %s' % e)
        return out
    found = []
    try:
        funcs = irfun.parse(text)
        cstr = irfun.cstrings(text)
        for fn in ('IB__call__', 'IB__adapt__'):
            if fn not in funcs:
                out['harness_errors'].append('ir_call: %s not found in the IR (renamed?)' % fn)
                return out
        exhausted = True
        outcomes = set()
        maxh = 2 if tier != 'thorough' else 4
        for entry in ('IB__adapt__', 'IB__call__'):
            for nh in range(maxh + 1):
                w = _CallWorld(irfun, cstr, nh, entry)
                ex = irfun.FunExec(funcs, entry, w, inline=('IB__adapt__',))
                sums = ex.run_all(budget_s=120 if tier != 'thorough' else 600)
                agg['paths'] += ex.stats['paths']
                agg['solver_queries'] += ex.stats['queries']
                agg['solver_s'] += ex.stats['solver_s']
                agg['unknown'] += ex.stats.get('n_inconclusive', 0)
                for inc in ex.stats['inconclusive'][:2]:
                    agg['errors'].append('inconclusive (%s, %d hooks): %s' % (entry, nh, inc['reason'][:300]))
                exhausted = exhausted and bool(ex.stats.get('exhausted')) and not ex.stats.get('n_inconclusive')
                agg['jobs'].append(dict(entry=entry, hooks=nh, paths=ex.stats['paths'], exhausted=ex.stats.get('exhausted')))
                for s in sums:
                    log = [e for e in s.events if e[0] != 'store']
                    tag = '%s with %d hook(s): %s' % (entry, nh, '; '.join('%s -> %s' % e for e in log))
                    if isinstance(s.ret, tuple) and s.ret[0] == 'DEFECT':
                        found.append((tag + ': ' + s.ret[1], log, entry, nh))
                        continue
                    want, mismatch = _pep246_reference(w, log, nh, entry)
                    if mismatch:
                        found.append((tag + ': ' + mismatch, log, entry, nh))
                        continue
                    outcomes.add(want)
                    if want[0] == 'ret':
                        ok = s.ret is not None and s.ret.label == want[1] and s.err is None
                    elif want[1] == 'any':
                        ok = s.ret is None
                    elif want[1] == 'Could not adapt':
                        ok = s.ret is None and s.err is w.TYPEERR
                    elif want[1] == 'TypeError':
                        ok = s.ret is None and s.err is w.TYPEERR
                    else:
                        ok = s.ret is None and s.err is w.OTHERERR
                    if not ok:
                        if want == ('raise', 'other') and s.ret is not None and any(e == ('provided?', 'raises') for e in log):
                            # PyObject_IsTrue() == -1 on a security-proxy answer is taken as true: only reachable with a proxy whose
                            # answer has a raising __bool__; recorded as informational (outside the property's quantifier)
                            agg.setdefault('informational', []).append('IB__adapt__: an exception from bool(proxy answer) is treated as "provides"')
                            continue
                        found.append((tag + ': returns %r with pending exception %r; the documented order gives %r' % (s.ret, s.err, want), log, entry, nh))
                        continue
                    if want == ('raise', 'Could not adapt'):
                        tv = [o for o in ex.objs if o.label == 'TypeError args']
                    if s.balance:
                        found.append((tag + ': unbalanced references at return %r' % s.balance, log, entry, nh))
                agg['reached'] += len(sums)
                agg['distinct'] += len(sums)
        for need in (('ret', 'obj'), ('ret', 'alternate'), ('raise', 'Could not adapt'), ('ret', 'result of __conform__'),
                     ('ret', 'result of hook1'), ('ret', 'result of the custom __adapt__'), ('raise', 'other')):
            if need not in outcomes:
                out['harness_errors'].append('ir_call: vacuous - no path with outcome %r' % (need,))
        agg['exhaustive'] = exhausted
        agg['solver_s'] = round(agg['solver_s'], 2)
        agg['stubs'] = dict(irfun.COMMON_STUB_DOC, **_CallWorld.STUB_DOC)
        seen = set()
        # witnesses whose difference is visible from Python first (the object provides the interface / a hook answers)
        found.sort(key=lambda f: (0 if ('provided?', 'yes') in f[1] else 1, 0 if any(e[1] == 'returns a value' and e[0].startswith('hook') for e in f[1]) else 1))
        for k, (msg, log, entry, nh) in enumerate(found):
            key = msg.rsplit(': ', 1)[-1][:120]
            if key in seen or len(seen) >= 5:
                continue
            seen.add(key)
            out['replays_attempted'] += 1
            res = _replay_call_on_c(ctx, log, entry, nh)
            if res.get('reproduced'):
                out['replays_reproduced'] += 1
                rpath = os.path.join(ctx['evdir'], 'replays', 'C14-ir_call-%d.json' % k)
                os.makedirs(os.path.dirname(rpath), exist_ok=True)
                json.dump(dict(property='C14', harness='ir_call', impl='c', ir_finding=msg, events=log, observed=res,
                               how='PURE_PYTHON=0: objects whose __conform__/__adapt__/hooks behave as the events say; the call is compared with the Python reference implementation'),
                          open(rpath, 'w'), indent=1)
                out['violations'].append(dict(harness='ir_call', impl='c', signature='C14:ir:call',
                                              msg='%s; reproduced on the real build: %s' % (msg[:500], res.get('msg', '')[:300]), replay=rpath))
            else:
                out['harness_errors'].append('ir_call: %s - NOT reproduced on the real build (%s); inconclusive' % (msg[:500], res.get('msg', '')[:200]))
    finally:
        shutil.rmtree(wd, ignore_errors=True)
    agg['cpu_s'] = round(time.time() - t0, 1)
    return out


_REPLAY_CALL = r'''
import gc, json, sys
from vlib import boot
boot.select('c')
from zope.interface import Interface, implementer, interfacemethod
from zope.interface import interface as zi
log, entry, nh = json.loads(sys.argv[1])
ev = dict((k, v) for k, v in log)
class Boom(Exception): pass
trace = []
custom = ev.get('custom-adapt flag') == 'yes'
def body(self, obj):
    trace.append('custom')
    o = ev.get('self.__adapt__(obj)', 'returns None')
    if o == 'raises': raise Boom('custom')
    return None if o == 'returns None' else 'custom-value'
if custom:
    class I(Interface):
        @interfacemethod
        def __adapt__(self, obj): return body(self, obj)
else:
    class I(Interface): pass
class Ob: pass
c = ev.get('getattr __conform__', 'raises AttributeError')
if c == 'a callable':
    def __conform__(self, iface):
        trace.append('conform')
        o = ev.get('self._call_conform(conform)', 'returns None')
        if o == 'raises': raise Boom('conform')
        return None if o == 'returns None' else 'conform-value'
    Ob.__conform__ = __conform__
elif c == 'is None':
    Ob.__conform__ = None
elif c == 'raises another exception':
    Ob.__conform__ = property(lambda self: (_ for _ in ()).throw(Boom('getattr')))
if ev.get('provided?') == 'yes':
    Ob = implementer(I)(Ob)
ob = Ob()
def mk(i):
    def hook(iface, o):
        trace.append('hook%d' % i)
        r = ev.get('hook%d(self, obj)' % i, 'returns None')
        if r == 'raises': raise Boom('hook%d' % i)
        return None if r == 'returns None' else 'hook%d-value' % i
    return hook
hooks = [mk(i) for i in range(nh)]
def run(target):
    del trace[:]
    saved = list(zi.adapter_hooks); zi.adapter_hooks[:] = hooks
    try:
        try:
            if entry == 'IB__adapt__': r = target.__adapt__(ob)
            elif 'alternate' in ev.get('parse', ''): r = target(ob, 'ALT')
            else: r = target(ob)
            r = ('ret', 'ob' if r is ob else repr(r))
        except Boom as e: r = ('raise', 'Boom')
        except TypeError as e: r = ('raise', 'TypeError:%s' % (e.args[0] if e.args else ''))
    finally:
        zi.adapter_hooks[:] = saved
    return [r, list(trace)]
import sys as _s
rc0 = None
got = run(I)
# the Python reference implementation of the same call on the same objects
class PyTwin(zi.InterfaceBasePy): pass
from zope.interface.interface import InterfaceBasePy
call_py = InterfaceBasePy.__call__ if entry != 'IB__adapt__' else None
def run_py():
    del trace[:]
    saved = list(zi.adapter_hooks); zi.adapter_hooks[:] = hooks
    try:
        try:
            if entry == 'IB__adapt__': r = InterfaceBasePy.__adapt__(I, ob)
            elif 'alternate' in ev.get('parse', ''): r = InterfaceBasePy.__call__(I, ob, 'ALT')
            else: r = InterfaceBasePy.__call__(I, ob)
            r = ('ret', 'ob' if r is ob else repr(r))
        except Boom as e: r = ('raise', 'Boom')
        except TypeError as e: r = ('raise', 'TypeError:%s' % (e.args[0] if e.args else ''))
    finally:
        zi.adapter_hooks[:] = saved
    return [r, list(trace)]
try:
    want = run_py()
except Exception as e:
    want = ['reference failed', repr(e)]
bad = []
if json.dumps(got) != json.dumps(want):
    bad.append('C gives %r, the Python reference gives %r' % (got, want))
# reference growth over repeated calls (leaks on this path)
import sys
def count():
    gc.collect(); return sys.getrefcount(ob) + sys.getrefcount(I) + sum(sys.getrefcount(h) for h in hooks) + sys.getrefcount(None) * 0
b0 = count()
for _ in range(200): run(I)
b1 = count()
if b1 - b0 > 50:
    bad.append('reference counts of the operands grow by %d over 200 calls' % (b1 - b0))
print(json.dumps(dict(reproduced=bool(bad), msg='; '.join(bad))))
'''


def _replay_call_on_c(ctx, log, entry, nh):
    import subprocess
    r = subprocess.run([ctx['py'], '-c', _REPLAY_CALL, json.dumps([log, entry, nh])], cwd=ctx['root'], env=ctx['env'],
                       capture_output=True, text=True, timeout=120)
    try:
        return json.loads(r.stdout.strip().splitlines()[-1])
    except Exception:
        if r.returncode < 0 or r.returncode == 139:
            return dict(reproduced=True, msg='the interpreter died (rc=%s) running this scenario on the C build' % r.returncode)
        return dict(reproduced=False, msg='replay failed rc=%s: %s' % (r.returncode, (r.stderr or r.stdout)[-400:]))


_ENC = ['zope.interface.interface:InterfaceBasePy.__call__', 'zope.interface.interface:InterfaceBasePy.__adapt__',
        'zope.interface.interface:InterfaceClass._call_conform', 'zope.interface.interface:InterfaceClass.__new__',
        'zope.interface.interface:interfacemethod', 'zope.interface.adapter:LookupBaseFallback.adapter_hook',
        'zope.interface._zope_interface_coptimizations:InterfaceBase']

HARNESSES = [
    Harness('e_order', make_e_order, kind='E', impls=('py', 'c'),
            tiers=dict(quick=dict(budget_s=90, parts=12, params=dict(max_hooks=2)),
                       thorough=dict(budget_s=900, parts=16, params=dict(max_hooks=3))),
            encoded=_ENC,
            bounds='__conform__ behaviour (13 kinds incl. raising AttributeError/TypeError inside the call, raising property, and __conform__ found in the instance __dict__ or through a class __getattr__) x '
                   'provided x hook lists of length <=2 (3) over {None, value, falsy value, raises, returns None after deleting the hooks behind it, returns None after appending a hook} x custom __adapt__ (8 kinds incl. '
                   'inherited ones) x alternate {absent, object, None} x entry {I(obj[,alt]), I.__adapt__(obj)}; both builds',
            outside='security proxies; __conform__ as an unbound method of a class used as the object (the documented TypeError trick)',
            oracle='PEP 246 reference producing the expected event log and outcome; the real call log must be identical',
            stubs=['adapter_hooks replaced for the duration of one case and restored'],
            assumptions=['a TypeError raised inside a Python-level __conform__ must propagate (_call_conform docs)']),
    Harness('ir_call', kind='custom', impls=('c',), run=run_ir_call, tiers=dict(quick={}, thorough={}),
            encoded=['zope.interface._zope_interface_coptimizations:InterfaceBase'],
            bounds='LLVM IR (clang-14 -O0 + mem2reg) of IB__call__ and IB__adapt__ (inlined) from the current C source; every path; every C-API '
                   'call that can run Python or fail is a decision (arguments with/without alternate, __conform__ lookup 4 outcomes, '
                   '_call_conform / custom __adapt__ / each hook: None, value, raises; providedBy(obj): specification, proxy, fails; provided '
                   'or not; _CALL_CUSTOM_ADAPT present or not); adapter_hooks of length 0..2 (thorough 4)',
            outside='more than 4 hooks; hooks that change adapter_hooks while they run (e_order covers them concretely); allocation failure',
            oracle='the documented order as an automaton over the same event alphabet: it must ask for exactly the steps the C path '
                   'performed, in that order, and give the same result / exception; frame reference balance on every path; findings are '
                   'replayed on the real C build against the Python reference implementation (and for reference growth)',
            stubs=['C-API contract stubs listed in the evidence (per_harness.stubs)']),
    Harness('e_registry', make_e_registry, kind='E', impls=('py', 'c'),
            tiers=dict(quick=dict(budget_s=30, parts=1), thorough=dict(budget_s=60, parts=1)),
            encoded=_ENC, bounds='registry.adapter_hook installed as the only hook; registration absent / for a base / for the provided '
                                 'interface, named or unnamed; factory returns adapter / None / falsy; alternate given or not',
            oracle='I(obj[, alt]) agrees with registry.queryAdapter(obj, I)'),
]

MANIFEST = {
    'engine': 'symx+irsym',
    'technique': 'symbolic execution: (1) CrossHair engine + z3 over the solver-enumerated product of environment behaviours of '
                 'InterfaceBase.__call__/__adapt__/_call_conform (incl. hooks that change adapter_hooks while they run), event-log oracle, '
                 'pure-Python and C builds; (2) Engine C functional mode - every path of the LLVM IR of IB__call__ / IB__adapt__ with every '
                 'C-API outcome as a decision: the executed steps and the outcome must be those of the documented order (an automaton over '
                 'the same events), frame reference balance on every path, findings replayed on the C build against the Python reference',
    'text': 'Bounded-exhaustive over the full product of __conform__/provided/hook/alternate/custom-__adapt__ behaviours stated '
            'in the property: every combination is executed on both implementations and the executed-step log is compared with a '
            'PEP 246 reference, so "later steps never run" is checked, not only the result. The C entry points are additionally '
            'path-exhausted at IR level (error paths and reference counts included).',
    'note': 'Trusted: the 40-line reference model, the C-API contract stubs of ir_call (evidence lists them); hook lists longer than the bound are outside the claim.',
}
