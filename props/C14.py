"""C14 Calling an interface follows the PEP 246 adaptation order."""
from vlib.harness import Harness
from vlib.symx import Violation, assume, native, pick, reached

CONFORM = ['absent', 'returns-None', 'returns-value', 'returns-falsy', 'raises-RuntimeError',
           'raises-AttributeError-in-call', 'raises-TypeError-in-call', 'getattr-raises-ValueError',
           'getattr-raises-AttributeError',
           # the same behaviours reached through the instance __dict__ / a class __getattr__ instead of a class attribute
           'instance-returns-None', 'instance-returns-value', 'instance-raises-RuntimeError', 'dunder-getattr-returns-value']
HOOK = ['None', 'value', 'falsy', 'raises',
        # hooks that change the list they are called from (the documented loop is `for hook in adapter_hooks`, i.e. the live list)
        'None-drops-rest', 'None-appends-late']
CUSTOM = ['absent', 'returns-None', 'returns-value', 'returns-falsy', 'raises', 'calls-super',
          'inherited-plain', 'inherited-with-other-interfacemethod']
ALT = ['not-given', 'object', 'None']
ENTRY = ['call', 'adapt']


class _Falsy:
    def __init__(self, tag):
        self.tag = tag

    def __bool__(self):
        return False

    def __len__(self):
        return 0

    def __repr__(self):
        return '<falsy %s>' % self.tag


class _Val:
    def __init__(self, tag):
        self.tag = tag

    def __repr__(self):
        return '<val %s>' % self.tag


class _Boom(Exception):
    pass


def run_case(case, trace=False):
    (conform, provided, hooks, custom, alt, entry) = case
    from zope.interface import Interface, implementer, interfacemethod
    from zope.interface import interface as zi
    log = []
    V = {k: _Val(k) for k in ('conform', 'custom', 'alt', 'h0', 'h1', 'h2', 'late')}
    F = {k: _Falsy(k) for k in ('conform', 'custom', 'h0', 'h1', 'h2')}

    def custom_body(self, obj):
        log.append('custom')
        k = CUSTOM[custom]
        if k == 'returns-None':
            return None
        if k in ('returns-value', 'inherited-plain', 'inherited-with-other-interfacemethod'):
            return V['custom']
        if k == 'returns-falsy':
            return F['custom']
        if k == 'raises':
            raise _Boom('custom')
        if k == 'calls-super':
            return super(type(self), self).__adapt__(obj)
        raise AssertionError

    if CUSTOM[custom] == 'absent':
        class I(Interface):
            pass
    elif CUSTOM[custom] in ('inherited-plain', 'inherited-with-other-interfacemethod'):
        class IBase(Interface):
            @interfacemethod
            def __adapt__(self, obj):
                return custom_body(self, obj)
        if CUSTOM[custom] == 'inherited-plain':
            class I(IBase):
                pass
        else:
            class I(IBase):
                @interfacemethod
                def extra(self):
                    return 'extra'
    else:
        class I(Interface):
            @interfacemethod
            def __adapt__(self, obj):
                return custom_body(self, obj)

    class Ob:
        pass
    ck_full = CONFORM[conform]
    ck = ck_full.replace('instance-', '').replace('dunder-getattr-', '')
    where = 'instance' if ck_full.startswith('instance-') else ('getattr' if ck_full.startswith('dunder-getattr-') else 'class')
    conform_fn = None
    if ck in ('getattr-raises-ValueError', 'getattr-raises-AttributeError'):
        def getter(self):
            log.append('conform-get')
            raise (ValueError if ck == 'getattr-raises-ValueError' else AttributeError)('conform')
        Ob.__conform__ = property(getter)
    elif ck != 'absent':
        def conform_fn(iface):
            log.append('conform-call')
            if iface is not I:
                raise AssertionError('conform called with %r' % (iface,))
            if ck == 'returns-None':
                return None
            if ck == 'returns-value':
                return V['conform']
            if ck == 'returns-falsy':
                return F['conform']
            if ck == 'raises-RuntimeError':
                raise RuntimeError('conform')
            if ck == 'raises-AttributeError-in-call':
                raise AttributeError('inside conform')
            if ck == 'raises-TypeError-in-call':
                raise TypeError('inside conform')
        if where == 'class':
            def __conform__(self, iface):
                return conform_fn(iface)
            Ob.__conform__ = __conform__
        elif where == 'getattr':
            def __getattr__(self, name):
                if name == '__conform__':
                    return conform_fn
                raise AttributeError(name)
            Ob.__getattr__ = __getattr__
    if provided:
        Ob = implementer(I)(Ob)
    ob = Ob()
    if where == 'instance':
        ob.__conform__ = conform_fn

    def mkhook(i, kind):
        def hook(iface, obj):
            log.append('hook%d' % i)
            if iface is not I or obj is not ob:
                raise AssertionError('hook args')
            if kind == 'None':
                return None
            if kind == 'value':
                return V['h%d' % i]
            if kind == 'falsy':
                return F['h%d' % i]
            if kind == 'None-drops-rest':
                del zi.adapter_hooks[zi.adapter_hooks.index(hook) + 1:]
                return None
            if kind == 'None-appends-late':
                zi.adapter_hooks.append(late_hook)
                return None
            raise _Boom('hook%d' % i)
        return hook

    def late_hook(iface, obj):
        log.append('hook-late')
        return V['late']
    hook_fns = [mkhook(i, HOOK[k]) for i, k in enumerate(hooks)]

    # ---- reference: PEP 246 order, as an event log + outcome -------------------
    elog = []

    def ref():
        if entry == 0:
            if ck == 'getattr-raises-ValueError':
                elog.append('conform-get')
                return ('raise', 'ValueError')
            if ck == 'getattr-raises-AttributeError':
                elog.append('conform-get')
            elif ck != 'absent':
                elog.append('conform-call')
                if ck == 'returns-value':
                    return ('ret', V['conform'])
                if ck == 'returns-falsy':
                    return ('ret', F['conform'])
                if ck == 'raises-RuntimeError':
                    return ('raise', 'RuntimeError')
                if ck == 'raises-AttributeError-in-call':
                    return ('raise', 'AttributeError')
                if ck == 'raises-TypeError-in-call':
                    return ('raise', 'TypeError:inside conform')
        r = None

        def default_adapt():
            if provided:
                return ('ret', ob)
            live = [(i, HOOK[k]) for i, k in enumerate(hooks)]
            pos = 0
            while pos < len(live):
                i, kind = live[pos]
                pos += 1
                elog.append('hook-late' if kind == 'late' else 'hook%d' % i)
                if kind == 'late':
                    return ('ret', V['late'])
                if kind == 'value':
                    return ('ret', V['h%d' % i])
                if kind == 'falsy':
                    return ('ret', F['h%d' % i])
                if kind == 'raises':
                    return ('raise', '_Boom')
                if kind == 'None-drops-rest':
                    del live[pos:]
                if kind == 'None-appends-late':
                    live.append((None, 'late'))
            return ('ret', None)
        c = CUSTOM[custom]
        if c == 'absent':
            r = default_adapt()
        else:
            elog.append('custom')
            if c == 'returns-None':
                r = ('ret', None)
            elif c in ('returns-value', 'inherited-plain', 'inherited-with-other-interfacemethod'):
                r = ('ret', V['custom'])
            elif c == 'returns-falsy':
                r = ('ret', F['custom'])
            elif c == 'raises':
                r = ('raise', '_Boom')
            else:
                r = default_adapt()
        if r[0] == 'raise':
            return r
        if entry == 1:
            return r
        if r[1] is not None:
            return r
        if ALT[alt] == 'object':
            return ('ret', V['alt'])
        if ALT[alt] == 'None':
            return ('ret', None)
        return ('raise', 'TypeError:Could not adapt')
    expected = ref()

    saved = list(zi.adapter_hooks)
    zi.adapter_hooks[:] = hook_fns
    try:
        try:
            if entry == 1:
                got = ('ret', I.__adapt__(ob))
            elif ALT[alt] == 'not-given':
                got = ('ret', I(ob))
            elif ALT[alt] == 'object':
                got = ('ret', I(ob, V['alt']))
            else:
                got = ('ret', I(ob, None))
        except TypeError as e:
            got = ('raise', 'TypeError:%s' % (e.args[0] if e.args else ''))
            if e.args and e.args[0] == 'Could not adapt' and (len(e.args) != 3 or e.args[1] is not ob or e.args[2] is not I):
                raise Violation('TypeError args are not (msg, obj, iface): %r' % (e.args,), signature='C14:typeerror-args')
        except Exception as e:
            got = ('raise', type(e).__name__)
    finally:
        zi.adapter_hooks[:] = saved
    if trace:
        r = got[1]
        return [got[0], 'ob' if r is ob else repr(r), list(log)]
    desc = dict(conform=ck_full, provided=bool(provided), hooks=[HOOK[k] for k in hooks], custom=CUSTOM[custom],
                alternate=ALT[alt], entry=ENTRY[entry])
    same = (got[0] == expected[0]) and (got[1] is expected[1] if got[0] == 'ret' else got[1] == expected[1])
    if not same:
        raise Violation('%r: outcome %r, PEP 246 order gives %r (log %r)' % (desc, got, expected, log),
                        signature='C14:outcome:%s' % (CUSTOM[custom] if CUSTOM[custom].startswith('inherited') else 'order'))
    if log != elog:
        raise Violation('%r: executed steps %r, expected %r' % (desc, log, elog), signature='C14:steps')


def make_e_order(params, part, nparts):
    NH = params.get('max_hooks', 2)
    customs = params.get('customs', len(CUSTOM))

    def h(conform: int, provided: int, nhooks: int, h0: int, h1: int, h2: int, custom: int, alt: int, entry: int):
        c_conf = pick(conform, len(CONFORM))
        c_cust = pick(custom, customs)
        assume((c_conf * customs + c_cust) % nparts == part)
        n = pick(nhooks, NH + 1)
        hooks = tuple(pick(x, len(HOOK)) for x in (h0, h1, h2)[:n])
        # list-mutating hook kinds only where the hooks can run at all (the other __conform__ kinds check "never run" with the plain kinds)
        assume(all(k < 4 for k in hooks) or c_conf in (0, 1))
        case = (c_conf, pick(provided, 2), hooks, c_cust, pick(alt, 3), pick(entry, 2))
        assume(not (case[5] == 1 and case[4] != 0))  # __adapt__ takes no alternate
        reached(case, dict(conform=CONFORM[case[0]], provided=case[1], hooks=[HOOK[k] for k in hooks],
                           custom=CUSTOM[case[3]], alternate=ALT[case[4]], entry=ENTRY[case[5]]))
        native(run_case, case)
    return h


def run_registry_case(case):
    """With a registry's adapter_hook installed the result equals registry.queryAdapter(obj, I)."""
    (reg_kind, provides, named_only, factory_kind, alt) = case
    from zope.interface import Interface, implementer
    from zope.interface import interface as zi
    from zope.interface.adapter import AdapterRegistry

    class IReq(Interface):
        pass

    class ISub(IReq):
        pass

    class I(Interface):
        pass

    @implementer(ISub if provides else Interface)
    class Ob:
        pass
    ob = Ob()
    made = []

    def factory(o):
        made.append(o)
        if factory_kind == 0:
            return ('adapted', o)
        if factory_kind == 1:
            return None
        return _Falsy('adapter')
    reg = AdapterRegistry()
    if reg_kind != 0:
        reg.register([IReq if reg_kind == 1 else ISub], I, 'n' if named_only else '', factory)
    saved = list(zi.adapter_hooks)
    zi.adapter_hooks[:] = [reg.adapter_hook]
    try:
        sentinel = object()
        q = reg.queryAdapter(ob, I, default=sentinel)
        made_q = len(made)
        try:
            r = I(ob) if not alt else I(ob, sentinel)
        except TypeError:
            r = TypeError
    finally:
        zi.adapter_hooks[:] = saved
    if q is sentinel:
        exp = sentinel if alt else TypeError
    else:
        exp = q
    ok = (r == exp) if isinstance(exp, tuple) else (r is exp or (isinstance(r, _Falsy) and isinstance(exp, _Falsy)))
    if not ok:
        raise Violation('registry hook: I(ob)=%r but queryAdapter=%r (case %r)' % (r, q, case), signature='C14:registry-hook')


def make_e_registry(params, part, nparts):
    def h(reg_kind: int, provides: int, named_only: int, factory_kind: int, alt: int):
        case = (pick(reg_kind, 3), pick(provides, 2), pick(named_only, 2), pick(factory_kind, 3), pick(alt, 2))
        reached(case, dict(case=case))
        native(run_registry_case, case)
    return h


_ENC = ['zope.interface.interface:InterfaceBasePy.__call__', 'zope.interface.interface:InterfaceBasePy.__adapt__',
        'zope.interface.interface:InterfaceClass._call_conform', 'zope.interface.interface:InterfaceClass.__new__',
        'zope.interface.interface:interfacemethod', 'zope.interface.adapter:LookupBaseFallback.adapter_hook',
        'zope.interface._zope_interface_coptimizations:InterfaceBase']

HARNESSES = [
    Harness('e_order', make_e_order, kind='E', impls=('py', 'c'),
            tiers=dict(quick=dict(budget_s=90, parts=12, params=dict(max_hooks=2)),
                       thorough=dict(budget_s=900, parts=16, params=dict(max_hooks=3))),
            encoded=_ENC,
            bounds='__conform__ behaviour (13 kinds incl. raising AttributeError/TypeError inside the call, raising property, and __conform__ found in the instance __dict__ or through a class __getattr__) x '
                   'provided x hook lists of length <=2 (3) over {None, value, falsy value, raises, returns None after deleting the hooks behind it, returns None after appending a hook} x custom __adapt__ (8 kinds incl. '
                   'inherited ones) x alternate {absent, object, None} x entry {I(obj[,alt]), I.__adapt__(obj)}; both builds',
            outside='security proxies; __conform__ as an unbound method of a class used as the object (the documented TypeError trick)',
            oracle='PEP 246 reference producing the expected event log and outcome; the real call log must be identical',
            stubs=['adapter_hooks replaced for the duration of one case and restored'],
            assumptions=['a TypeError raised inside a Python-level __conform__ must propagate (_call_conform docs)']),
    Harness('e_registry', make_e_registry, kind='E', impls=('py', 'c'),
            tiers=dict(quick=dict(budget_s=30, parts=1), thorough=dict(budget_s=60, parts=1)),
            encoded=_ENC, bounds='registry.adapter_hook installed as the only hook; registration absent / for a base / for the provided '
                                 'interface, named or unnamed; factory returns adapter / None / falsy; alternate given or not',
            oracle='I(obj[, alt]) agrees with registry.queryAdapter(obj, I)'),
]

MANIFEST = {
    'engine': 'symx',
    'technique': 'symbolic execution (CrossHair engine + z3) of InterfaceBase.__call__/__adapt__/_call_conform over the '
                 'solver-enumerated product of environment behaviours, event-log oracle; pure-Python and C builds',
    'text': 'Bounded-exhaustive over the full product of __conform__/provided/hook/alternate/custom-__adapt__ behaviours stated '
            'in the property: every combination is executed on both implementations and the executed-step log is compared with a '
            'PEP 246 reference, so "later steps never run" is checked, not only the result.',
    'note': 'Trusted: the 40-line reference model; hook lists longer than the bound are outside the claim.',
}
