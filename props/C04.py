"""C04 Adapter lookup returns the most specific applicable registration."""
import itertools

from vlib.harness import Harness
from vlib.symx import Violation, assume, native, pick, reached
from vlib import regmodel as M


def _alphabet(params):
    """Registration alphabet: (registry, required index tuple, provided index, name)."""
    nregs = params.get('nregs', 2)
    reqs1 = params.get('req1', [0, 1, 2, 3, 4, 5])
    provs = params.get('provs', [0, 1, 2, 3])
    names = params.get('names', ['', 'n'])
    reqs2 = params.get('req2', [0, 1, 2, 3])
    out = []
    if params.get('arity0', True):
        for r in range(nregs):
            for p in provs[:2]:
                out.append((r, (), p, ''))
    for r in range(nregs):
        for q in reqs1:
            for p in provs:
                for n in names:
                    out.append((r, (q,), p, n))
    if params.get('arity2', False):
        for r in range(nregs):
            for q1 in reqs2:
                for q2 in reqs2:
                    for p in provs[:2]:
                        out.append((r, (q1, q2), p, ''))
    return out


def run_state(params, regs_ops, flavour='adapter', removed=()):
    """Build a real registry chain holding the given registrations (optionally unregistering some of them again),
    then compare every lookup with the declarative rank oracle."""
    u = M.RegUniverse(flavour=flavour, nregs=params.get('nregs', 2))
    model = M.Model(len(u.regs))
    pool = u.req_pool()
    for k, (ri, req, pi, name) in enumerate(regs_ops):
        required = [pool[q] for q in req]
        v = u.val('v%d' % k)
        u.regs[ri].register(required, u.P[pi], name, v)
        model.register(ri, required, u.P[pi], name, v)
    for k in removed:
        (ri, req, pi, name) = regs_ops[k]
        required = [pool[q] for q in req]
        u.regs[ri].unregister(required, u.P[pi], name)
        model.unregister(ri, required, u.P[pi], name)
    lpool = u.lookup_pool()
    lidx = params.get('lookup_idx') or list(range(len(lpool)))
    arities = sorted(set(len(op[1]) for op in regs_ops)) or [1]
    sentinel = object()
    _sweep(params, u, model, regs_ops, lpool, lidx, arities, sentinel, '')
    if params.get('redeclare'):
        # the same registry contents under a changed hierarchy: the class whose declaration is among the looked-up specifications is
        # re-declared (every answer above is cached by now), and the rule must hold for the new resolution orders
        from zope.interface import classImplementsFirst, classImplementsOnly
        classImplementsFirst(u.K0, u.R[3])
        _sweep(params, u, model, regs_ops, lpool, lidx, arities, sentinel, ' after classImplementsFirst(K0, R3)')
        classImplementsOnly(u.K0, u.R[2])
        _sweep(params, u, model, regs_ops, lpool, lidx, arities, sentinel, ' after classImplementsOnly(K0, R2)')
    _registered_back(u, model, regs_ops, pool)


def _sweep(params, u, model, regs_ops, lpool, lidx, arities, sentinel, when):
    for ri in range(len(u.regs)):
        reg = u.regs[ri]
        for a in arities:
            for combo in itertools.product(lidx, repeat=a):
                specs = [lpool[c] for c in combo]
                for pi, p in enumerate(u.P):
                    for name in params.get('lookup_names', ('', 'n')):
                        adm = M.lookup_admissible(model, u, ri, specs, p, name)
                        got = reg.lookup(specs, p, name, sentinel)
                        what = 'registrations=%s;%s reg%d.lookup((%s), P%d, %r)' % (
                            _fmt(u, regs_ops), when, ri, ', '.join(u.lookup_names()[c] for c in combo), pi, name)
                        again = reg.lookup(specs, p, name, sentinel)      # the same key once more (answer cached by now)
                        if again is not got:
                            raise Violation('%s returned %r, the same call repeated returns %r' % (what, got, again),
                                            signature='C04:repeat-differs')
                        if not adm:
                            if got is not sentinel:
                                raise Violation('%s returned %r, no registration applies (default expected)' % (what, got),
                                                signature='C04:spurious')
                        else:
                            if not any(got is v for v in adm):
                                raise Violation('%s returned %r, most specific applicable is %r' % (what, got, adm),
                                                signature='C04:wrong-winner' if got is not sentinel else 'C04:missed')
                        if a == 1:
                            got1 = reg.lookup1(specs[0], p, name, sentinel)
                            if got1 is not got:
                                raise Violation('%s: lookup1 gives %r, lookup gives %r' % (what, got1, got),
                                                signature='C04:lookup1')


def _registered_back(u, model, regs_ops, pool):
    # registered() reads back exactly what was registered
    for k, (ri, req, pi, name) in enumerate(regs_ops):
        required = [pool[q] for q in req]
        cur = model.adapters[ri].get(M.Model._k(required, u.P[pi], name), (None, None, None, None))[3]
        if u.regs[ri].registered(required, u.P[pi], name) is not cur:
            raise Violation('registered() does not return the live value for %r' % (regs_ops[k],), signature='C04:registered')


def _fmt(u, ops):
    return '[' + '; '.join('reg%d (%s)->P%d %r' % (ri, ','.join(u.req_names()[q] for q in req), pi, nm)
                           for ri, req, pi, nm in ops) + ']'


def make_e_lookup(params, part, nparts):
    alpha = _alphabet(params)
    L = params.get('L', 3)
    flavour = params.get('flavour', 'adapter')
    NA = len(alpha)

    def h(n: int, o1: int, o2: int, o3: int, rm: int = 0):
        c1 = pick(o1, NA)
        assume(c1 % nparts == part)
        ln = pick(n, L) + 1   # 1..L registrations
        assume(ln >= params.get('minlen', 1))
        idx = [c1]
        for o in (o2, o3)[:ln - 1]:
            c = pick(o, NA)
            assume(c > idx[-1])      # sets, canonical order: registration order is covered by C09
            idx.append(c)
        ops = tuple(alpha[i] for i in idx)
        # same key registered twice would overwrite: distinct keys by construction (c strictly increasing)
        removed = ()
        if params.get('remove'):
            # registry contents are also what is left after unregistering: every non-empty subset is taken out again
            mask = pick(rm, (1 << ln) - 1) + 1
            removed = tuple(k for k in range(ln) if mask >> k & 1)
        reached(tuple(idx) + (removed,), dict(registrations=[list(map(str, op)) for op in ops], unregistered_again=list(removed)))
        native(run_state, params, ops, flavour, removed)
    return h


# ---------------------------------------------------------------------------
# S tier: the real module-level _lookup on symbolic nested maps
# ---------------------------------------------------------------------------

class AssocMap:
    """==-matching association list (never hashes its keys)."""

    def __init__(self, items=None):
        self.items_ = list(items or [])

    def get(self, key, default=None):
        for k, v in self.items_:
            if k == key:
                return v
        return default

    def __bool__(self):
        return len(self.items_) > 0

    def __len__(self):
        return len(self.items_)


class StubSpec:
    def __init__(self, sro):
        self.__sro__ = sro


def make_s_lookup1(params, part, nparts):
    """Arity 1.  components = {req_id: {prov_id: {name: value}}} as association lists with
    symbolic int keys, symbolic str names and symbolic values; the looked-up spec is a stub
    whose __sro__ is a symbolic duplicate-free list of ids; `extendors` (the provided walk)
    a symbolic duplicate-free list of ids.  All symbols are scalars (no symbolic lists)."""
    from zope.interface.adapter import _lookup
    K = params.get('keys', 2)
    S = params.get('sro', 3)
    E = params.get('ext', 2)

    def h(nent: int, slen: int, elen: int,
          s0: int, s1: int, s2: int, e0: int, e1: int,
          r0: int, r1: int, r2: int, p0: int, p1: int, p2: int,
          n0: str, n1: str, n2: str, v0: int, v1: int, v2: int, name: str):
        c_n = pick(nent, K + 1)
        c_s = pick(slen, S) + 1
        c_e = pick(elen, E) + 1
        assume((c_n * S + (c_s - 1)) % nparts == part)
        sro = [s0, s1, s2][:c_s]
        ext = [e0, e1][:c_e]
        # duplicate-free orders
        for i in range(len(sro)):
            for j in range(i + 1, len(sro)):
                assume(sro[i] != sro[j])
        for i in range(len(ext)):
            for j in range(i + 1, len(ext)):
                assume(ext[i] != ext[j])
        rk, pk, nm, vals = [r0, r1, r2][:c_n], [p0, p1, p2][:c_n], [n0, n1, n2][:c_n], [v0, v1, v2][:c_n]
        assume(len(name) <= 1)
        for s_ in nm:
            assume(len(s_) <= 1)
        for v in vals:
            assume(v != 0)    # representation invariant: a stored value is never None
        for i in range(c_n):  # representation invariant: one value per (req, prov, name)
            for j in range(i + 1, c_n):
                assume(not (rk[i] == rk[j] and pk[i] == pk[j] and nm[i] == nm[j]))
        entries = [(rk[i], pk[i], nm[i], vals[i]) for i in range(c_n)]
        comps = AssocMap()
        for (r, p, n, v) in entries:
            d1 = comps.get(r)
            if d1 is None:
                d1 = AssocMap()
                comps.items_.append((r, d1))
            d2 = d1.get(p)
            if d2 is None:
                d2 = AssocMap()
                d1.items_.append((p, d2))
            d2.items_.append((n, v))
        spec = StubSpec(sro)
        reached(None, dict(sro=sro, extendors=ext, entries=entries, name=name))
        got = _lookup(comps, [spec], ext, name, 0, 1)
        # declarative oracle: min over (pos in sro, pos in ext) among entries with that name
        best = None
        for (r, p, n, v) in entries:
            if n != name:
                continue
            pr = index_of(sro, r)
            pp = index_of(ext, p)
            if pr < 0 or pp < 0:
                continue
            rank = (pr, pp)
            if best is None or rank < best[0]:
                best = (rank, v)
        exp = best[1] if best is not None else None
        if exp is None:
            if got is not None:
                raise Violation('_lookup returned %r, no entry applies' % (got,), signature='C04:kernel')
        elif got is None or got != exp:
            raise Violation('_lookup returned %r, rank-minimal entry is %r' % (got, exp), signature='C04:kernel')
    return h


def set_free(xs):
    """Duplicate-free prefix check without hashing: returns list of first occurrences."""
    out = []
    for x in xs:
        dup = False
        for y in out:
            if x == y:
                dup = True
        if not dup:
            out.append(x)
    return out


def index_of(xs, x):
    for i, y in enumerate(xs):
        if x == y:
            return i
    return -1


# ---------------------------------------------------------------------------
# S tier 2: inductive step of add_extendor / remove_extendor on a symbolic partial order
# ---------------------------------------------------------------------------

def make_s_extendors(params, part, nparts):
    """Pre-state: an `_extendors[key]` list of n<=3 stub interfaces in an order satisfying Inv (no element strictly
    extends a later one), for an *arbitrary* partial order `extends` given by symbolic booleans (reflexive; antisymmetry
    and transitivity assumed).  One real add_extendor(p) / remove_extendor(x): the list must contain exactly the
    expected members once each and satisfy Inv again.  One step from every Inv-state covers registration
    histories of any length for lists within the size bound."""
    from zope.interface.adapter import AdapterLookupBase
    NMAX = params.get('n', 3)

    def h(n: int, op: int, which: int,
          e01: bool, e02: bool, e03: bool, e10: bool, e12: bool, e13: bool,
          e20: bool, e21: bool, e23: bool, e30: bool, e31: bool, e32: bool):
        c_n = pick(n, NMAX + 1)
        c_op = pick(op, 2)
        assume((c_n * 2 + c_op) % nparts == part)
        E = [[True, e01, e02, e03], [e10, True, e12, e13], [e20, e21, True, e23], [e30, e31, e32, True]]
        live = list(range(c_n)) + [3]          # element 3 is the interface being added
        # partial order axioms on the elements in play (placed before the code they constrain)
        for a in live:
            for b in live:
                if a != b:
                    assume(not (E[a][b] and E[b][a]))
                    for c in live:
                        if c != a and c != b:
                            assume(not (E[a][b] and E[b][c]) or E[a][c])

        class Stub:
            def __init__(self, k, key):
                self.k = k
                self.__iro__ = (key,)

            def isOrExtends(self, other):
                return E[self.k][other.k]

        key = object()
        stubs = [Stub(k, key) for k in range(4)]
        pre = stubs[:c_n]
        # Inv on the pre-state: a more general interface never comes after a more specific one
        for i in range(c_n):
            for j in range(i + 1, c_n):
                assume(not E[i][j])

        class Self:
            pass
        me = Self()
        me._extendors = {key: list(pre)}
        reached(None, dict(n=c_n, op=c_op))
        if c_op == 0:
            AdapterLookupBase.add_extendor(me, stubs[3])
            exp = pre + [stubs[3]]
        else:
            assume(c_n > 0)
            w = pick(which, c_n)
            AdapterLookupBase.remove_extendor(me, pre[w])
            exp = [x for x in pre if x is not pre[w]]
        got = me._extendors[key]
        if len(got) != len(exp) or any(sum(1 for y in got if y is x) != 1 for x in exp):
            raise Violation('extendors list %r does not contain exactly the live interfaces %r' % (
                [x.k for x in got], [x.k for x in exp]), signature='C04:extendors:members')
        for i in range(len(got)):
            for j in range(i + 1, len(got)):
                if E[got[i].k][got[j].k]:
                    raise Violation('extendors list %r: element %d extends the later element %d (more specific before more general)' % (
                        [x.k for x in got], got[i].k, got[j].k), signature='C04:extendors:order')
    return h


# ---------------------------------------------------------------------------
# E tier 2: registration *order* on the provided side (the extendors table is order dependent)
# ---------------------------------------------------------------------------

PSH = ((), (0,), (0,), (1,), (1, 2))     # P0, P1(P0), P2(P0), P3(P1), P4(P1,P2)


def run_provided_order(ops, flavour):
    from zope.interface import Interface
    from zope.interface.adapter import AdapterRegistry, VerifyingAdapterRegistry
    from vlib import universe as U
    mod = U.fresh_module_name()
    (R0,) = U.build_ifaces(((),), prefix='R', module=mod)
    P = U.build_ifaces(PSH, prefix='P', module=mod)
    reg = (AdapterRegistry if flavour == 'adapter' else VerifyingAdapterRegistry)()
    live = {}
    hist = []
    for k, (kind, pi) in enumerate(ops):
        if kind == 'register':
            v = 'v%d@%d' % (pi, k)
            reg.register([R0], P[pi], '', v)
            live[pi] = v
        else:
            reg.unregister([R0], P[pi], '')
            live.pop(pi, None)
        hist.append('%s([R0], P%d)' % (kind, pi))
        for qi, Q in list(enumerate(P)) + [(-1, Interface)]:
            cands = [pi_ for pi_ in live if P[pi_].isOrExtends(Q)]
            adm = [pi_ for pi_ in cands if not any(pj != pi_ and P[pi_].extends(P[pj]) for pj in cands)]
            got = reg.lookup([R0], Q, '')
            what = 'provided DAG P0,P1(P0),P2(P0),P3(P1),P4(P1,P2); history [%s]; lookup([R0], %s)' % (
                '; '.join(hist), 'P%d' % qi if qi >= 0 else 'Interface')
            if not cands:
                if got is not None:
                    raise Violation('%s returned %r, nothing applies' % (what, got), signature='C04:spurious')
            elif not any(got == live[a] for a in adm):
                raise Violation('%s returned %r; registrations with the most general applicable provided interface: %r' % (
                    what, got, [live[a] for a in adm]), signature='C04:provided-not-most-general')


def make_e_provided_order(params, part, nparts):
    L = params['L']
    flavour = params.get('flavour', 'adapter')
    alpha = [('register', i) for i in range(5)] + [('unregister', i) for i in range(5)]
    NA = len(alpha)

    def h(n: int, o1: int, o2: int, o3: int, o4: int, o5: int):
        c1 = pick(o1, 5)          # a history starts with a registration
        assume(c1 % nparts == part)
        ln = pick(n, L) + 1
        idx = [c1] + [pick(o, NA) for o in (o2, o3, o4, o5)[:ln - 1]]
        ops = tuple(alpha[i] for i in idx)
        reached(tuple(idx), dict(history=[list(map(str, o)) for o in ops]))
        native(run_provided_order, ops, flavour)
    return h


_ENC = ['zope.interface.adapter:_lookup', 'zope.interface.adapter:AdapterLookupBase._uncached_lookup',
        'zope.interface.adapter:AdapterLookupBase.add_extendor', 'zope.interface.adapter:AdapterLookupBase.remove_extendor',
        'zope.interface.adapter:LookupBaseFallback.lookup', 'zope.interface.adapter:LookupBaseFallback.lookup1',
        'zope.interface.adapter:BaseAdapterRegistry.register', 'zope.interface.adapter:BaseAdapterRegistry.registered']

_Q1 = dict(nregs=2, L=2, req1=[0, 1, 2, 3, 5], provs=[0, 1, 2, 3], names=['', 'n'], arity0=False, redeclare=True)
_Q1b = dict(nregs=2, L=3, req1=[0, 1, 3, 5], provs=[0, 1, 3], names=[''], arity0=False, minlen=3)
_Q2 = dict(nregs=2, L=2, req1=[], provs=[0, 1], names=[''], arity0=True, arity2=True, req2=[0, 1, 2, 3],
           lookup_idx=[0, 1, 3, 4, 6], lookup_names=('',))
_QR = dict(nregs=1, L=3, req1=[0, 1, 3], provs=[0, 1], names=[''], arity0=True, arity2=True, req2=[0, 1], lookup_idx=[0, 1, 3],
           lookup_names=('',), remove=True, minlen=2)
_T1 = dict(nregs=2, L=3, req1=[0, 1, 2, 3, 4, 5], provs=[0, 1, 2, 3], names=['', 'n'], arity0=True)
_T2 = dict(nregs=2, L=3, req1=[], provs=[0, 1], names=[''], arity0=False, arity2=True, req2=[0, 1, 2, 3],
           lookup_idx=[0, 1, 3, 4, 6], lookup_names=('',))

HARNESSES = [
    Harness('e_lookup_a1', make_e_lookup, kind='E', impls=('py', 'c'),
            tiers=dict(quick=dict(budget_s=100, parts=8, params=_Q1),
                       thorough=dict(budget_s=1500, parts=16, params=_T1)),
            encoded=_ENC,
            bounds='2-registry chain; every set of <=2 (thorough 3) arity-1 registrations over required {None,R0,R1,R2,R3,implementedBy(K0)} x '
                   'provided diamond x names {"","n"}; every lookup key (8 looked-up specs incl. class and instance declarations x 4 provided x 2 names) from both registries',
            outside='arity>2; more than 3 registrations; more than 2 registries (C06)',
            oracle='declarative rank: min over (registry position in C3 order, position of each required in the looked-up __sro__), '
                   'then provided not strictly extending another candidate (partial order)'),
    Harness('e_lookup_a1x3', make_e_lookup, kind='E', impls=('py', 'c'),
            tiers=dict(quick=dict(budget_s=100, parts=8, params=_Q1b),
                       thorough=dict(budget_s=100, parts=8, params=_Q1b)),
            encoded=_ENC,
            bounds='every set of exactly 3 unnamed arity-1 registrations over required {None,R0,R1,R3,implementedBy(K0)} x provided {P0,P1,P3} x 2 registries',
            oracle='as e_lookup_a1'),
    Harness('e_lookup_a2', make_e_lookup, kind='E', impls=('py', 'c'),
            tiers=dict(quick=dict(budget_s=100, parts=8, params=_Q2),
                       thorough=dict(budget_s=1500, parts=16, params=_T2)),
            encoded=_ENC,
            bounds='as above with arity-2 (and arity-0) registrations: every set of <=2 (thorough 3) over required pairs {None,R0,R1,R2}^2',
            oracle='as e_lookup_a1'),
    Harness('e_lookup_removed', make_e_lookup, kind='E', impls=('py', 'c'),
            tiers=dict(quick=dict(budget_s=100, parts=8, params=_QR),
                       thorough=dict(budget_s=900, parts=16, params=dict(_QR, nregs=2, req2=[0, 1, 2]))),
            encoded=_ENC + ['zope.interface.adapter:BaseAdapterRegistry.unregister'],
            bounds='one registry holding registrations of arity 0, 1 and 2 together: every set of 2..3 registrations over required {None,R0,R1} / '
                   'pairs {None,R0}^2 x provided {P0,P1}, then every non-empty subset of them unregistered again; every lookup key of every arity',
            outside='more than 3 registrations; subscriptions (C07/C09)',
            oracle='as e_lookup_a1, over the registrations that are left'),
    Harness('s_lookup1', make_s_lookup1, kind='S', impls=('py',),
            tiers=dict(quick=dict(budget_s=90, parts=9, ppt=40, params=dict(keys=2, sro=3)),
                       thorough=dict(budget_s=1200, parts=12, ppt=60, params=dict(keys=3, sro=3))),
            encoded=['zope.interface.adapter:_lookup'],
            bounds='arity 1; <=2 (3) registration entries with symbolic int keys, symbolic str names |s|<=1, symbolic values; '
                   'symbolic duplicate-free __sro__ of length <=3, extendors list of length <=2',
            outside='arity>1 at this tier; longer sro/extendors; the reachability of the container state (covered by the E tier through the public API)',
            oracle='min over (position in __sro__, position in extendors) among entries registered under exactly that name',
            stubs=['nested dicts replaced by ==-matching association lists (duck-typed .get)', 'stub spec object carrying __sro__'],
            assumptions=['representation invariant: no stored value is None; one value per (required, provided, name)']),
    Harness('s_extendors', make_s_extendors, kind='S', impls=('py',),
            tiers=dict(quick=dict(budget_s=120, parts=8, ppt=40, params=dict(n=3)),
                       thorough=dict(budget_s=600, parts=8, ppt=60, params=dict(n=3))),
            encoded=['zope.interface.adapter:AdapterLookupBase.add_extendor', 'zope.interface.adapter:AdapterLookupBase.remove_extendor'],
            bounds='inductive step: an extendors list of <=3 stub interfaces in any order satisfying Inv, for an arbitrary partial order given by '
                   '12 symbolic booleans (antisymmetric, transitive); one real add_extendor of a fourth interface or remove_extendor of a member',
            outside='lists longer than 3 (+1); several keys at once (the loop over provided.__iro__ treats keys independently)',
            oracle='membership exactly once each; Inv: no element strictly extends a later element (most general first)',
            stubs=['stub interfaces whose isOrExtends reads the symbolic matrix', 'stub lookup object carrying _extendors']),
    Harness('e_provided_order', make_e_provided_order, kind='E', impls=('py',),
            tiers=dict(quick=dict(budget_s=100, parts=5, params=dict(L=4)),
                       thorough=dict(budget_s=1500, parts=5, params=dict(L=5))),
            encoded=_ENC,
            bounds='provided-side DAG P0, P1(P0), P2(P0), P3(P1), P4(P1,P2); every history of <=4 (thorough 5) register/unregister calls (10 ops) '
                   'for one required key, in every order; after each step lookup of every provided interface and of Interface',
            outside='longer histories; other provided DAGs',
            oracle='the winner\'s provided interface does not strictly extend the provided interface of another applicable registration'),
]

for _k in HARNESSES:
    if _k.name in ('s_lookup1', 's_extendors'):
        _k.stub_kernel = True      # drives private functions / extension points with stub containers (see vlib.runner)

MANIFEST = {
    'engine': 'symx',
    'technique': 'symbolic execution (CrossHair engine + z3): the real adapter._lookup on symbolic nested maps / symbolic __sro__ (kernel), '
                 'plus solver-enumerated registration sets on real registry chains with a declarative rank oracle, both builds',
    'text': 'Kernel: for every content of the nested maps within the size bound and every duplicate-free resolution order, _lookup returns '
            'the rank-minimal entry (one path covers all keys/names/values taking it). End to end: every set of registrations in the bound is '
            'installed in a real 2-registry chain and every lookup key is compared with the declarative oracle on both implementations.',
    'note': 'Trusted: the rank oracle (written from the statement); __sro__ correctness is C03\'s obligation.',
}
