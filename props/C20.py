"""C20 Declaration algebra: iteration, membership, + and - obey ordered-set laws.

E tier: both operands are built from solver-enumerated sequences of nested argument items
(interfaces, tuples, nested lists, Declarations, class specifications) over a 5-interface DAG
(diamond + unrelated); every pair is run through the real Declaration operations and compared
with list/set oracles written from the statement.
"""
from vlib.harness import Harness
from vlib.symx import Collector, Violation, assume, native, pick, reached
from vlib import universe as U

# IA, IB(IA), IC(IA), ID(IB, IC), IE
ISHAPE = ((), (0,), (0,), (1, 2), ())
NI = 5
INAME = ['IA', 'IB', 'IC', 'ID', 'IE']
ANC = [frozenset(U.ancestors(ISHAPE, i)) for i in range(NI)]

# argument items: (label, builder(u) -> object, flattened interface indices)
ITEMS = [
    ('IA', lambda u: u.I[0], [0]),
    ('IB', lambda u: u.I[1], [1]),
    ('IC', lambda u: u.I[2], [2]),
    ('ID', lambda u: u.I[3], [3]),
    ('IE', lambda u: u.I[4], [4]),
    ('(IB, IE)', lambda u: (u.I[1], u.I[4]), [1, 4]),
    ('[IC, [IA]]', lambda u: [u.I[2], [u.I[0]]], [2, 0]),
    ('Declaration(ID, IE)', lambda u: u.Declaration(u.I[3], u.I[4]), [3, 4]),
    ('Declaration(IA)', lambda u: u.Declaration(u.I[0]), [0]),
    ('implementedBy(Kx)', lambda u: u.implementedBy(u.Kx), [1]),          # Kx declares IB
    ('implementedBy(Ky)', lambda u: u.implementedBy(u.Ky), [4, 1]),       # Ky(Kx) declares IE: declared then inherited
    ('()', lambda u: (), []),
    ('(IC, IB)', lambda u: (u.I[2], u.I[1]), [2, 1]),
    ('Declaration((ID,), [IC])', lambda u: u.Declaration((u.I[3],), [u.I[2]]), [3, 2]),
]
NIT = len(ITEMS)


class Universe:
    def __init__(self):
        from zope.interface import implementer, implementedBy, Interface
        from zope.interface.declarations import Declaration
        self.I = U.build_ifaces(ISHAPE, prefix='I')
        self.Interface = Interface
        self.Declaration = Declaration
        self.implementedBy = implementedBy
        self.Kx = implementer(self.I[1])(type('Kx', (object,), {}))
        self.Ky = implementer(self.I[4])(type('Ky', (self.Kx,), {}))
        self.KU = type('KU', (object,), {})
        self.idx = {id(x): k for k, x in enumerate(self.I)}

    def names(self, seq):
        out = []
        for x in seq:
            k = self.idx.get(id(x))
            out.append(k if k is not None else repr(x))
        return out


def dedupe(seq):
    out = []
    for x in seq:
        if x not in out:
            out.append(x)
    return out


def flat(items):
    out = []
    for it in items:
        out += ITEMS[it][2]
    return dedupe(out)


def extends(i, j, strict=True):
    return j in ANC[i] and (not strict or i != j)


def exp_sub(a, b):
    return [i for i in a if not any(extends(i, j, False) for j in b)]


def exp_add_strict(a, b):
    new = [i for i in b if i not in a]
    front = [i for i in new if any(extends(i, x) for x in a)]
    back = [i for i in new if i not in front]
    return front + a + back


def exp_add_growing(a, b):
    """What `__add__`'s docstring example does: an extender of an interface appended earlier in the same
    addition is also moved to the front (known finding when it differs from the statement)."""
    before, result = [], list(a)
    for i in b:
        if i in result or i in before:
            continue
        if any(extends(i, x) for x in result):
            before.append(i)
        else:
            result.append(i)
    return before + result


def lab(seq):
    return '[' + ', '.join(INAME[i] if isinstance(i, int) else str(i) for i in seq) + ']'


def build(u, items):
    return u.Declaration(*[ITEMS[it][1](u) for it in items])


def check_single(u, A, a, what):
    got = u.names(list(A))
    if got != a:
        raise Violation('%s: iteration gives %s, arguments flatten (in order, without duplicates) to %s' % (what, lab(got), lab(a)),
                        signature='C20:iter')
    if u.names(list(A.interfaces())) != a:
        raise Violation('%s: interfaces() differs from iteration' % what, signature='C20:iter')
    for k, I in enumerate(u.I):
        if (I in A) != (k in a):
            raise Violation('%s: %s in A is %s' % (what, INAME[k], I in A), signature='C20:contains')
    if u.Interface in A:
        raise Violation('%s: Interface in A although it was not declared' % what, signature='C20:contains')
    fl = list(A.flattened())
    fn = u.names(fl[:-1]) if fl and fl[-1] is u.Interface else None
    clo = set()
    for i in a:
        clo |= ANC[i]
    if fn is None or set(fn) != clo or len(set(fn)) != len(fn):
        raise Violation('%s: flattened() gives %r, expected exactly %s followed by Interface' % (what, fl, lab(sorted(clo))),
                        signature='C20:flattened-set')
    pos = {k: p for p, k in enumerate(fn)}
    for k in fn:
        for b in ISHAPE[k]:
            if pos[b] < pos[k]:
                raise Violation('%s: flattened() %s lists %s before its extender %s' % (what, lab(fn), INAME[b], INAME[k]),
                                signature='C20:flattened-order')
    if fl != list(A.__iro__):
        raise Violation('%s: flattened() is not the resolution order' % what, signature='C20:flattened-order')


def run_pair(ia, ib):
    from zope.interface import (alsoProvides, directlyProvidedBy, directlyProvides, noLongerProvides, providedBy)
    u = Universe()
    a, b = flat(ia), flat(ib)
    A, B = build(u, ia), build(u, ib)
    wa = 'A=Declaration(%s)' % ', '.join(ITEMS[i][0] for i in ia)
    wb = 'B=Declaration(%s)' % ', '.join(ITEMS[i][0] for i in ib)
    check_single(u, A, a, wa)
    check_single(u, B, b, wb)
    bases_a, bases_b = A.__bases__, B.__bases__

    col = Collector()
    d = A - B
    got = u.names(list(d))
    if got != exp_sub(a, b):
        raise Violation('%s, %s: A - B = %s, expected %s (interfaces of A that neither are nor extend an interface of B, in order)' % (
            wa, wb, lab(got), lab(exp_sub(a, b))), signature='C20:sub')
    s = A + B
    got = u.names(list(s))
    strict, growing = exp_add_strict(a, b), exp_add_growing(a, b)
    if got != strict:
        if got == growing:
            col.report('%s, %s: A + B = %s; the statement gives %s: an interface of B that extends only another *new* interface of B '
                       '(none of A) was moved to the front' % (wa, wb, lab(got), lab(strict)),
                       signature='C20:add:extender-of-new-B-interface-in-front')
        else:
            raise Violation('%s, %s: A + B = %s, expected %s' % (wa, wb, lab(got), lab(strict)), signature='C20:add')
    # a bare interface as right operand
    if len(b) == 1:
        Ib = u.I[b[0]]
        if u.names(list(A - Ib)) != exp_sub(a, b) or u.names(list(A + Ib)) != got:
            raise Violation('%s: A -/+ %s (bare interface) = %s / %s, expected %s / %s' % (
                wa, INAME[b[0]], lab(u.names(list(A - Ib))), lab(u.names(list(A + Ib))), lab(exp_sub(a, b)), lab(strict)),
                signature='C20:bare-interface-operand')
    # operands unmodified
    if A.__bases__ is not bases_a and A.__bases__ != bases_a or B.__bases__ != bases_b or u.names(list(A)) != a or u.names(list(B)) != b:
        raise Violation('%s, %s: an operand was modified by + / -' % (wa, wb), signature='C20:operand-modified')

    # users: directlyProvides / alsoProvides / noLongerProvides / directlyProvidedBy
    ob = u.KU()
    directlyProvides(ob, *[ITEMS[i][1](u) for i in ia])
    got = u.names(list(directlyProvidedBy(ob)))
    if got != a:
        raise Violation('%s: directlyProvidedBy after directlyProvides(ob, *args) = %s, expected %s' % (wa, lab(got), lab(a)),
                        signature='C20:directlyProvidedBy')
    alsoProvides(ob, *[ITEMS[i][1](u) for i in ib])
    got = u.names(list(directlyProvidedBy(ob)))
    exp = dedupe(a + b)
    if got != exp:
        raise Violation('%s, %s: directlyProvidedBy after alsoProvides = %s, expected %s' % (wa, wb, lab(got), lab(exp)),
                        signature='C20:alsoProvides')
    for k in b[:1]:
        raised = False
        try:
            noLongerProvides(ob, u.I[k])
        except ValueError:
            raised = True
        got = u.names(list(directlyProvidedBy(ob)))
        exp2 = exp_sub(exp, [k])
        if got != exp2 or raised:
            raise Violation('%s, %s: after noLongerProvides(ob, %s) directlyProvidedBy = %s (ValueError: %s), expected %s and no error' % (
                wa, wb, INAME[k], lab(got), raised, lab(exp2)), signature='C20:noLongerProvides')
        if u.I[k].providedBy(ob):
            raise Violation('%s, %s: %s still provided after noLongerProvides' % (wa, wb, INAME[k]), signature='C20:noLongerProvides')
    col.finish()


def make_e(params, part, nparts):
    ma, mb = params['max_a'], params['max_b']

    def h(na: int, nb: int, a1: int, a2: int, a3: int, b1: int, b2: int, b3: int):
        la = pick(na, ma + 1)
        lb = pick(nb, mb + 1)
        ia = tuple(pick(x, NIT) for x in (a1, a2, a3)[:la])
        if ia:
            assume(ia[0] % nparts == part)
        else:
            assume(part == 0)
        ib = tuple(pick(x, NIT) for x in (b1, b2, b3)[:lb])
        reached((ia, ib), dict(A=[ITEMS[i][0] for i in ia], B=[ITEMS[i][0] for i in ib]))
        native(run_pair, ia, ib)
    return h


# ---------------------------------------------------------------------------
# S tier: + and - on stub interfaces whose `extends` relation is a symbolic partial order
# ---------------------------------------------------------------------------

def make_s_algebra(params, part, nparts):
    """The real Declaration.__add__ / __sub__ run on operands that are lists over 4 stub interfaces; the strict
    `extends` relation between the stubs is given by 12 symbolic booleans (antisymmetry and transitivity assumed),
    so one explored path covers every interface DAG inducing the consulted part of the relation.  The result
    constructor is replaced by a recorder (stub, listed)."""
    import itertools
    from zope.interface import declarations as D
    real_add, real_sub = D.Declaration.__add__, D.Declaration.__sub__
    NU = 4
    lists_a = [p for k in range(0, params.get('max_a', 2) + 1) for p in itertools.permutations(range(NU), k)]
    lists_b = [p for k in range(0, params.get('max_b', 3) + 1) for p in itertools.permutations(range(NU), k)]

    class Recorder:
        def __init__(self, *args):
            self.args = list(args)

    def h(sa: int, sb: int, op: int,
          e01: bool, e02: bool, e03: bool, e10: bool, e12: bool, e13: bool,
          e20: bool, e21: bool, e23: bool, e30: bool, e31: bool, e32: bool):
        ia = pick(sa, len(lists_a))
        assume(ia % nparts == part)
        a = lists_a[ia]
        b = lists_b[pick(sb, len(lists_b))]
        c_op = pick(op, 2)
        E = [[False, e01, e02, e03], [e10, False, e12, e13], [e20, e21, False, e23], [e30, e31, e32, False]]
        live = sorted(set(a) | set(b))
        for x in live:
            for y in live:
                if x != y:
                    assume(not (E[x][y] and E[y][x]))
                    for z in live:
                        if z != x and z != y:
                            assume(not (E[x][y] and E[y][z]) or E[x][z])

        class Stub:
            def __init__(self, k):
                self.k = k

            def extends(self, other, strict=True):
                if other is self:
                    return not strict
                return E[self.k][other.k]

        U_ = [Stub(k) for k in range(NU)]

        class Operand:
            def __init__(self, idx):
                self.idx = idx

            def interfaces(self):
                return iter([U_[k] for k in self.idx])
        A, B = Operand(a), Operand(b)
        reached(None, dict(A=list(a), B=list(b), op='+-'[c_op]))
        saved = D.Declaration
        D.Declaration = Recorder
        try:
            r = (real_add if c_op == 0 else real_sub)(A, B)
        finally:
            D.Declaration = saved
        got = [x.k for x in r.args]
        la, lb = list(a), list(b)
        if c_op == 1:
            exp = [i for i in la if not any(i == j or E[i][j] for j in lb)]
            if got != exp:
                raise Violation('A=%s - B=%s = %s, expected %s' % (la, lb, got, exp), signature='C20:sub')
            return
        new = [i for i in lb if i not in la]
        front = [i for i in new if any(E[i][x] for x in la)]
        strict = front + la + [i for i in new if i not in front]
        if got != strict:
            before, result = [], list(la)
            for i in lb:
                if i in result or i in before:
                    continue
                if any(E[i][x] for x in result):
                    before.append(i)
                else:
                    result.append(i)
            if got == before + result:
                raise Violation('A=%s + B=%s = %s; the statement gives %s (an extender of a new interface of B moved to the front)' % (
                    la, lb, got, strict), signature='C20:add:extender-of-new-B-interface-in-front')
            raise Violation('A=%s + B=%s = %s, expected %s' % (la, lb, got, strict), signature='C20:add')
    return h


_ENC = ['zope.interface.declarations:Declaration.__contains__', 'zope.interface.declarations:Declaration.__iter__',
        'zope.interface.declarations:Declaration.flattened', 'zope.interface.declarations:Declaration.__sub__',
        'zope.interface.declarations:Declaration.__add__', 'zope.interface.declarations:_normalizeargs',
        'zope.interface.interface:Specification.interfaces', 'zope.interface.interface:InterfaceClass.interfaces',
        'zope.interface.declarations:alsoProvides', 'zope.interface.declarations:noLongerProvides',
        'zope.interface.declarations:directlyProvidedBy', 'zope.interface.declarations:directlyProvides']

HARNESSES = [
    Harness('e_pairs', make_e, kind='E', impls=('py',),
            tiers=dict(quick=dict(budget_s=150, parts=14, params=dict(max_a=2, max_b=2)),
                       thorough=dict(budget_s=3000, parts=14, params=dict(max_a=3, max_b=2))),
            encoded=_ENC,
            bounds='interfaces IA, IB(IA), IC(IA), ID(IB,IC), IE; each operand = Declaration(*items) with <=2 (thorough: A <=3) items from 14 '
                   '(bare interfaces, tuples, nested lists, Declarations, class specifications implementedBy(Kx)=[IB], implementedBy(Ky(Kx))=[IE,IB], '
                   'the empty tuple); every ordered pair (211^2 quick, 2955x211 thorough)',
            outside='operands with more items; interface DAGs other than the diamond + unrelated one; the C build (the algebra has no C twin)',
            oracle='list/set model from the statement: iteration = flatten + de-duplicate; contains; flattened = closure in a valid '
                   'resolution order; A-B; A+B (extenders of A first, others appended, A order kept); operands unmodified; '
                   'directlyProvides/alsoProvides/noLongerProvides/directlyProvidedBy as users'),
    Harness('s_algebra', make_s_algebra, kind='S', impls=('py',),
            tiers=dict(quick=dict(budget_s=120, parts=16, ppt=40, params=dict(max_a=2, max_b=2)),
                       thorough=dict(budget_s=1500, parts=16, ppt=60, params=dict(max_a=3, max_b=3))),
            encoded=['zope.interface.declarations:Declaration.__add__', 'zope.interface.declarations:Declaration.__sub__'],
            bounds='operands = ordered lists of distinct members over 4 stub interfaces (quick |A|,|B| <= 2, thorough <= 3; members may be shared); the '
                   'strict extends relation is an arbitrary partial order given by 12 symbolic booleans: one path covers every interface DAG '
                   'that induces the consulted part of the relation',
            outside='more than 4 interfaces; the flattening of nested arguments (E tier)',
            oracle='A - B and A + B computed from the statement over the symbolic relation',
            stubs=['stub interfaces whose extends() reads the symbolic relation', 'operands exposing interfaces()', 'Declaration constructor replaced by a recorder'],
            assumptions=['extends is a strict partial order (irreflexive, antisymmetric, transitive)']),
]

for _k in HARNESSES:
    if _k.name in ('s_algebra',):
        _k.stub_kernel = True      # drives private functions / extension points with stub containers (see vlib.runner)

MANIFEST = {
    'engine': 'symx',
    'technique': 'symbolic execution (CrossHair engine + z3) over solver-enumerated pairs of nested declaration operands run through the real '
                 'Declaration operations; list/set oracle written from the statement',
    'text': 'Bounded-exhaustive over all ordered pairs of declarations built from up to 2 (thorough 3) nested argument items over a diamond + '
            'unrelated interface DAG; the ordering rules of + and - depend on the inheritance relation between every pair of operand '
            'members, which the enumeration covers.',
    'note': 'Trusted: the 30-line list model. One open known finding (narrow signature) for + with an extender of a new interface.',
}
