"""C03 Resolution orders are valid linearizations and equal C3 whenever C3 exists."""
from vlib.harness import Harness
from vlib.symx import Violation, assume, native, pick, reached
from vlib import universe as U


def _legacy(shape, i):
    """Independent statement of the legacy order: DFS, keep last occurrence."""
    def flat(x):
        r = [x]
        for b in shape[x]:
            r.extend(flat(b))
        return r
    seq = flat(i)
    out = []
    for idx, x in enumerate(seq):
        if x not in seq[idx + 1:]:
            out.append(x)
    return out


def check_shape(shape):
    from zope.interface import Interface, ro
    from zope.interface.interface import InterfaceClass
    n = len(shape)
    ifaces = U.build_ifaces(shape)
    # mirrored class hierarchy: CPython's own C3
    classes = []
    for i, bases in enumerate(shape):
        if any(classes[j] is None for j in bases):
            classes.append(None)
            continue
        try:
            classes.append(type('K%d' % i, tuple(classes[j] for j in bases) or (object,), {}))
        except TypeError:
            classes.append(None)
    index = {c: i for i, c in enumerate(classes) if c is not None}
    for i in range(n):
        I = ifaces[i]
        sro = list(I.__sro__)
        anc = U.ancestors(shape, i)
        names = [getattr(s, '__name__', '?') for s in sro]
        ctxt = 'shape=%r node=%d sro=%s' % (shape, i, names)
        # (i) structural predicates, demanded for every hierarchy
        if sro[0] is not I:
            raise Violation('sro does not start with the spec: ' + ctxt, signature='C03:structure')
        if sro[-1] is not Interface:
            raise Violation('sro does not end with Interface: ' + ctxt, signature='C03:structure')
        if len(set(map(id, sro))) != len(sro):
            raise Violation('duplicate in sro: ' + ctxt, signature='C03:structure')
        if set(map(id, sro)) != set(id(ifaces[j]) for j in anc) | {id(Interface)}:
            raise Violation('sro is not exactly the ancestors: ' + ctxt, signature='C03:structure')
        pos = {id(s): p for p, s in enumerate(sro)}
        for j in anc:
            for b in shape[j]:
                if pos[id(ifaces[j])] > pos[id(ifaces[b])]:
                    raise Violation('I%d listed after its base I%d: %s' % (j, b, ctxt), signature='C03:structure')
        if list(I.__iro__) != [s for s in sro if isinstance(s, InterfaceClass)]:
            raise Violation('__iro__ is not __sro__ restricted to interfaces: ' + ctxt, signature='C03:structure')
        # (ii) C3
        has_c3 = classes[i] is not None
        if has_c3:
            expect = [ifaces[index[c]] if c is not object else Interface for c in classes[i].__mro__]
            if sro != expect:
                raise Violation('sro differs from the C3 linearization %s: %s' % (
                    [e.__name__ for e in expect], ctxt), signature='C03:not-c3')
        try:
            strict_ro = ro.ro(I, strict=True)
            raised = False
        except ro.InconsistentResolutionOrderError:
            raised = True
        if raised == has_c3:
            raise Violation('strict mode raised=%s but C3 exists=%s: %s' % (raised, has_c3, ctxt),
                            signature='C03:strict-raise')
        if not raised and strict_ro != sro:
            raise Violation('strict ro differs from __sro__: ' + ctxt, signature='C03:not-c3')
        cons = ro.is_consistent(I)
        if cons != has_c3:
            raise Violation('is_consistent=%s but C3 exists=%s: %s' % (cons, has_c3, ctxt),
                            signature='C03:is_consistent')
        # (iii) the documented global setting ZOPE_INTERFACE_STRICT_IRO (C3.STRICT_IRO) only changes the default: an explicit
        # strict=False still computes, is_consistent still answers, the default raises exactly when no C3 order exists
        plain = ro.ro(I, strict=False)
        saved = ro.C3.__dict__['STRICT_IRO']
        ro.C3.STRICT_IRO = True
        try:
            try:
                under = ro.ro(I, strict=False)
            except ro.InconsistentResolutionOrderError:
                raise Violation('with the strict setting on, ro(strict=False) raised instead of computing: ' + ctxt, signature='C03:strict-setting')
            if under != plain:
                raise Violation('with the strict setting on, ro(strict=False) gives another order: ' + ctxt, signature='C03:strict-setting')
            try:
                cons2 = ro.is_consistent(I)
            except ro.InconsistentResolutionOrderError:
                raise Violation('with the strict setting on, is_consistent raised instead of answering: ' + ctxt, signature='C03:strict-setting')
            if cons2 != has_c3:
                raise Violation('with the strict setting on, is_consistent=%s but C3 exists=%s: %s' % (cons2, has_c3, ctxt),
                                signature='C03:is_consistent')
            try:
                dflt = ro.ro(I)
                raised2 = False
            except ro.InconsistentResolutionOrderError:
                raised2 = True
            if raised2 == has_c3 or (not raised2 and dflt != sro):
                raise Violation('with the strict setting on, ro() raised=%s but C3 exists=%s: %s' % (raised2, has_c3, ctxt),
                                signature='C03:strict-raise')
        finally:
            type.__setattr__(ro.C3, 'STRICT_IRO', saved)
        leg = ro.ro(I, use_legacy_ro=True, log_changed_ro=False)
        exp_leg = [ifaces[j] for j in _legacy(shape, i)]
        leg_wo = [x for x in leg if x is not Interface]
        if leg_wo != exp_leg or leg[-1] is not Interface and len(leg) != len(exp_leg) + 1:
            raise Violation('use_legacy_ro order %s is not DFS-keep-last %s: %s' % (
                [x.__name__ for x in leg], [x.__name__ for x in exp_leg], ctxt), signature='C03:legacy')


def make_e_dags(params, part, nparts):
    N = params['n']
    maxb = params.get('maxbases')
    nsel = N - 1

    def h(s1: int, s2: int, s3: int, s4: int, s5: int):
        sels = [s1, s2, s3, s4, s5][:nsel]
        # partition on the last (largest) selector
        opts_last = U.ordered_subsets(N - 1, maxb)
        last = pick(sels[-1], len(opts_last))
        assume(last % nparts == part)
        shape = [()]
        for i in range(1, N - 1):
            opts = U.ordered_subsets(i, maxb)
            shape.append(opts[pick(sels[i - 1], len(opts))])
        shape.append(opts_last[last])
        shape = tuple(shape)
        reached(shape, dict(shape=[list(b) for b in shape]))
        native(check_shape, shape)
    return h


_ENC = ['zope.interface.ro:ro', 'zope.interface.ro:C3.mro', 'zope.interface.ro:C3._merge',
        'zope.interface.ro:C3._find_next_C3_base', 'zope.interface.ro:C3._can_choose_base',
        'zope.interface.ro:C3._guess_next_base', 'zope.interface.ro:_legacy_ro',
        'zope.interface.ro:is_consistent', 'zope.interface.ro:_StrictC3',
        'zope.interface.interface:Specification._calculate_sro']

HARNESSES = [
    Harness('e_dags', make_e_dags, kind='E', impls=('py',),
            tiers=dict(quick=dict(budget_s=100, parts=16, params=dict(n=5)),
                       thorough=dict(budget_s=1500, parts=16, params=dict(n=6, maxbases=3))),
            encoded=_ENC,
            bounds='every ordered DAG with distinct bases on N=5 nodes (10 400 shapes; all sub-DAGs N<=4 are prefixes) quick; '
                   'N=6 with <=3 bases per node thorough (non-exhaustive if the budget ends first); every node of every shape checked',
            outside='duplicate bases in one __bases__ tuple (rejected by Python); N>6; logging/tracking side channels (the strict setting is covered: on and off); '
                    'rebasing histories are covered by C02 (sro of the rebased graph == fresh graph)',
            oracle="structural predicates + CPython's type.mro() on a mirrored class hierarchy (TypeError <=> no C3) + "
                   'an independent DFS-keep-last statement of the legacy order'),
    Harness('e_mixed_specs', None, kind='E', impls=('py',),
            tiers=dict(quick=dict(budget_s=100, parts=16, params=dict(L=1, maxb=3)),
                       thorough=dict(budget_s=1500, parts=16, params=dict(L=2, maxb=3))),
            encoded=_ENC,
            bounds='the mixed specification graph of C02 (interfaces, class declarations rooted in implementedBy(object), an instance declaration, '
                   'plain declarations): every assignment (thorough: every pair of assignments) of an ordered base list of <=3 members, '
                   'consistent or not; every __sro__ must start with the specification, list each ancestor once, put every specification '
                   'before all of its bases and end with Interface (a second root such as implementedBy(object) must not displace it)',
            outside='as C02.e_rebase_wide', oracle='the structural predicates of the statement over the harness\'s mirror of the current __bases__'),
]
from props import C02 as _C02   # noqa: E402
HARNESSES[-1].make = _C02.make_e

MANIFEST = {
    'engine': 'symx',
    'technique': "symbolic execution (CrossHair engine + z3) of ro.py over solver-enumerated ordered DAGs; oracle CPython type.mro()",
    'text': 'Bounded-exhaustive: z3 exhausts the path tree of the shape decoder, so every ordered inheritance DAG up to N nodes '
            'was run through the real ro/C3/legacy code and compared with CPython\'s own MRO of a mirrored hierarchy. C3 existence '
            'is a function of the whole DAG, so exhaustive small-scope enumeration is the appropriate level.',
    'note': 'Trusted: CPython type.mro as the C3 reference; CrossHair path-tree exhaustion; N<=5 quick.',
}
