"""C15 Attribute, tagged-value and invariant resolution all follow the resolution order."""
from vlib.harness import Harness
from vlib.symx import Violation, assume, native, pick, reached
from vlib import universe as U

# node state s in {0,1,2} is applied to the three independent dimensions at once:
#   name 'x'  : 0 undefined, 1 Attribute (on odd nodes a falsy Attribute subclass), 2 Method with (node index + 1) required args
#   tag  't'  : 0 unset, 1 value = node index, 2 value None (a falsy value that is still a value)
#   invariant : 0 none, 1 passing, 2 failing (raises Invalid('inv<node>'))


def _group_class():
    from zope.interface import Attribute

    class Group(Attribute):
        def __len__(self):
            return 0
    return Group


class _LazyGroup:
    cls = None

    def __call__(self, doc):
        if _LazyGroup.cls is None:
            _LazyGroup.cls = _group_class()
        return _LazyGroup.cls(doc)


_Group = _LazyGroup()


def _mk_attrs(i, s):
    from zope.interface import Attribute
    from zope.interface.interface import fromFunction, TAGGED_DATA
    from zope.interface.exceptions import Invalid
    d = {}
    if s == 1:
        # odd nodes use a description that is false in a boolean context (a composite attribute with no members yet):
        # "defined" means present, not truthy
        d['x'] = (_Group if i % 2 else Attribute)('x of %d' % i)
    elif s == 2:
        ns = {}
        exec('def x(%s): pass' % ', '.join('p%d' % k for k in range(i + 1)), ns)
        d['x'] = fromFunction(ns['x'], name='x')
    tags = {}
    if s == 1:
        tags['t'] = i
    elif s == 2:
        tags['t'] = None
    if s == 1:
        def inv_ok(ob, i=i):
            ob.log.append(i)
        tags['invariants'] = [inv_ok]
    elif s == 2:
        def inv_bad(ob, i=i):
            ob.log.append(i)
            raise Invalid('inv%d' % i)
        tags['invariants'] = [inv_bad]
    if tags:
        d[TAGGED_DATA] = tags
    return d


class _Ob:
    def __init__(self):
        self.log = []


def check_all(ifaces, states, where):
    _check_all(ifaces, states, where)
    _check_root(ifaces, states, where)


def _check_root(ifaces, states, where):
    """The root `Interface` is the last member of every __iro__: a tagged value and an invariant set on it are inherited by every
    interface (set for the duration of the check only)."""
    from zope.interface import Interface
    from zope.interface.exceptions import Invalid
    had = Interface.queryDirectTaggedValue('invariants', None)

    def root_inv(ob):
        ob.log.append('root')
    Interface.setTaggedValue('rt', 'root')
    Interface.setTaggedValue('invariants', [root_inv])
    try:
        for n, I in enumerate(list(ifaces) + [Interface]):
            ctx = '%s node=%s with a tagged value and an invariant set on the root Interface' % (where, 'I%d' % n if n < len(ifaces) else 'Interface')
            if I.queryTaggedValue('rt') != 'root' or I.getTaggedValue('rt') != 'root':
                raise Violation('%s: the tag of the root is not inherited' % ctx, signature='C15:tag:root')
            exp_tags = set()
            for J in I.__iro__:
                exp_tags |= set(J.getDirectTaggedValueTags())
            if set(I.getTaggedValueTags()) != exp_tags or 'rt' not in exp_tags:
                raise Violation('%s: getTaggedValueTags=%s, union over __iro__=%s' % (ctx, sorted(I.getTaggedValueTags()), sorted(exp_tags)),
                                signature='C15:tag:tags')
            ob = _Ob()
            errors = []
            try:
                I.validateInvariants(ob, errors)
            except Invalid:
                pass
            if ob.log.count('root') != 1 or ob.log[-1] != 'root':
                raise Violation('%s: validateInvariants ran %r; the invariant of the root runs once, last' % (ctx, ob.log), signature='C15:invariants:root')
    finally:
        tv = Interface._Element__tagged_values
        tv.pop('rt', None)
        if had is None:
            tv.pop('invariants', None)
        else:
            tv['invariants'] = had


def _check_all(ifaces, states, where):
    from zope.interface import Interface, implementer
    from zope.interface.exceptions import Invalid, BrokenMethodImplementation, BrokenImplementation
    from zope.interface.interface import Method
    from zope.interface.verify import verifyObject
    from zope.interface import document
    index = {id(I): k for k, I in enumerate(ifaces)}
    for n, I in enumerate(ifaces):
        iro = [index[id(J)] for J in I.__iro__ if J is not Interface]
        ctx = '%s node=I%d iro=%s states=%s' % (where, n, iro, states)
        # ---- names --------------------------------------------------------
        definers = [k for k in iro if states[k] != 0]
        exp = ifaces[definers[0]].direct('x') if definers else None
        if definers and exp is None:
            raise Violation('harness: direct() lost the definition', signature='C15:harness')
        got = {}
        try:
            got['getitem'] = I['x']
        except KeyError:
            got['getitem'] = None
        got['get'] = I.get('x')
        got['query'] = I.queryDescriptionFor('x')
        try:
            got['getDescriptionFor'] = I.getDescriptionFor('x')
        except KeyError:
            got['getDescriptionFor'] = None
        got['nad'] = dict(I.namesAndDescriptions(all=True)).get('x')
        for k, v in got.items():
            if v is not exp:
                raise Violation('%s: %s gives %r, first definer in __iro__ gives %r' % (ctx, k, v, exp),
                                signature='C15:description:%s' % k)
        pres = {'contains': 'x' in I, 'iter': 'x' in list(iter(I)), 'names': 'x' in list(I.names(all=True)),
                'nad': 'x' in dict(I.namesAndDescriptions(all=True))}
        for k, v in pres.items():
            if v != (exp is not None):
                raise Violation('%s: presence via %s is %s, expected %s' % (ctx, k, v, exp is not None),
                                signature='C15:presence:%s' % k)
        if ('zz' in I) or I.get('zz') is not None or 'zz' in list(I.names(all=True)):
            raise Violation('%s: undefined name reported' % ctx, signature='C15:presence:undefined')
        if sorted(I.names()) != (['x'] if states[n] else []):
            raise Violation('%s: names() (direct) wrong: %s' % (ctx, sorted(I.names())), signature='C15:direct')
        # ---- consumers: verifyObject and document follow the same resolution ---
        if exp is not None and isinstance(exp, Method):
            arity = definers[0] + 1
            for k in sorted(set(d + 1 for d in definers if states[d] == 2)):
                ns = {}
                exec('def x(self, %s): pass' % ', '.join('p%d' % j for j in range(k)), ns)
                K = implementer(I)(type('K', (object,), {'x': ns['x']}))
                try:
                    verifyObject(I, K())
                    ok = True
                except (BrokenMethodImplementation, BrokenImplementation):
                    ok = False
                if ok != (k == arity):
                    raise Violation('%s: verifyObject accepts=%s an implementation with %d args; resolved method has %d' % (
                        ctx, ok, k, arity), signature='C15:consumer:verify')
        # ---- tagged values --------------------------------------------------
        tdef = [k for k in iro if states[k] != 0]
        sentinel = object()
        if tdef:
            expv = tdef[0] if states[tdef[0]] == 1 else None
            try:
                gv = I.getTaggedValue('t')
            except KeyError:
                gv = sentinel
            if gv is not expv and gv != expv or gv is sentinel:
                raise Violation('%s: getTaggedValue=%r expected %r' % (ctx, gv, expv), signature='C15:tag:get')
            for dflt in (sentinel, expv, None, 0):
                qv = I.queryTaggedValue('t', dflt)
                if qv is sentinel or qv != expv:
                    raise Violation('%s: queryTaggedValue(default=%r)=%r expected %r' % (ctx, dflt, qv, expv),
                                    signature='C15:tag:query')
        else:
            if I.queryTaggedValue('t', sentinel) is not sentinel:
                raise Violation('%s: tag reported but nobody sets it' % ctx, signature='C15:tag:query')
            try:
                I.getTaggedValue('t')
                raise Violation('%s: getTaggedValue did not raise KeyError' % ctx, signature='C15:tag:get')
            except KeyError:
                pass
        exp_tags = set()
        for J in I.__iro__:
            exp_tags |= set(J.getDirectTaggedValueTags())
        if set(I.getTaggedValueTags()) != exp_tags:
            raise Violation('%s: getTaggedValueTags=%s, union over __iro__=%s' % (
                ctx, sorted(I.getTaggedValueTags()), sorted(exp_tags)), signature='C15:tag:tags')
        if ('t' in exp_tags) != bool(tdef):
            raise Violation('harness: tags model', signature='C15:harness')
        # ---- invariants -------------------------------------------------------
        with_inv = [k for k in iro if states[k] != 0]
        failing = [k for k in with_inv if states[k] == 2]
        ob = _Ob()
        errors = []
        try:
            I.validateInvariants(ob, errors)
            raised = False
        except Invalid:
            raised = True
        if ob.log != with_inv:
            raise Violation('%s: validateInvariants(errors) ran %s, expected every invariant in __iro__ order %s' % (
                ctx, ob.log, with_inv), signature='C15:invariants:ran')
        if [str(e) for e in errors] != ['inv%d' % k for k in failing] or raised != bool(failing):
            raise Violation('%s: collected %s raised=%s, expected failures %s' % (
                ctx, [str(e) for e in errors], raised, failing), signature='C15:invariants:collected')
        ob = _Ob()
        try:
            I.validateInvariants(ob)
            raised = None
        except Invalid as e:
            raised = str(e)
        exp_r = ('inv%d' % failing[0]) if failing else None
        if raised != exp_r:
            raise Violation('%s: validateInvariants() raised %r expected %r' % (ctx, raised, exp_r),
                            signature='C15:invariants:first')


def run_case(shape, states, rebases):
    ifaces = U.build_ifaces(shape, attrs=[_mk_attrs(i, s) for i, s in enumerate(states)])
    from zope.interface import Interface
    check_all(ifaces, states, 'initial %r' % (shape,))
    cur = list(shape)

    class Watcher:
        """A dependent registered with the public I.subscribe(): while a change is being announced it asks the accessors of every
        interface; whatever resolution order an interface has at that moment, its accessors must agree with it and with each other."""
        busy = False

        def __init__(self, k):
            self.k = k

        def changed(self, originally_changed):
            if Watcher.busy:
                return
            Watcher.busy = True
            try:
                _check_all(ifaces, states, 'inside the change notification of I%d (history so far %r on %r)' % (self.k, done, shape))
            finally:
                Watcher.busy = False
    done = []
    watchers = [Watcher(k) for k in range(len(ifaces))]
    if rebases:
        for k, I in enumerate(ifaces):
            I.subscribe(watchers[k])
    for (node, newbases) in rebases:
        done.append((node, tuple(newbases)))
        ifaces[node].__bases__ = tuple(ifaces[j] for j in newbases) or (Interface,)
        cur[node] = tuple(newbases)
        check_all(ifaces, states, 'after %r: I%d.__bases__=%r' % (shape, node, newbases))
    if rebases:
        fresh = U.build_ifaces(tuple(cur), attrs=[_mk_attrs(i, s) for i, s in enumerate(states)])
        for a, b in zip(ifaces, fresh):
            ra = [x.__name__ for x in a.__iro__]
            rb = [x.__name__ for x in b.__iro__]
            if ra != rb:
                raise Violation('rebased %r -> %r: __iro__ %s differs from fresh graph %s' % (shape, cur, ra, rb),
                                signature='C15:rebase:iro')


def make_e_resolve(params, part, nparts):
    N = params['n']
    L = params.get('rebases', 0)
    maxb = params.get('maxbases')

    def h(s1: int, s2: int, s3: int, s4: int, st0: int, st1: int, st2: int, st3: int, st4: int,
          rn1: int, rb1: int, rn2: int, rb2: int):
        sels = [s1, s2, s3, s4][:N - 1]
        sts = [st0, st1, st2, st3, st4][:N]
        opts_last = U.ordered_subsets(N - 1, maxb)
        last = pick(sels[-1], len(opts_last))
        assume(last % nparts == part)
        shape = [()]
        for i in range(1, N - 1):
            opts = U.ordered_subsets(i, maxb)
            shape.append(opts[pick(sels[i - 1], len(opts))])
        shape.append(opts_last[last])
        states = tuple(pick(s, 3) for s in sts)
        assume(sum(1 for s in states if s) >= (2 if L else 1))
        rebases = []
        for (rn, rb) in [(rn1, rb1), (rn2, rb2)][:L]:
            node = pick(rn, N + 1)  # N = no-op (shorter history)
            if node == N:
                break
            assume(node >= 1)
            opts = U.ordered_subsets(node, maxb)
            nb = opts[pick(rb, len(opts))]
            rebases.append((node, nb))
        key = (tuple(shape), states, tuple(rebases))
        reached(key, dict(shape=[list(b) for b in shape], states=list(states), rebases=[[n_, list(b)] for n_, b in rebases]))
        native(run_case, tuple(shape), states, rebases)
    return h


# ---------------------------------------------------------------------------
# twins: two distinct interface objects with the same (__name__, __module__) - as after a module reload -
# swapped for each other by re-basing; interfaces compare equal by name, so "did my resolution order change?"
# answered with == instead of identity goes wrong exactly here
# ---------------------------------------------------------------------------

TW_NAMES = ['R', 'R', 'M', 'L', 'Rt', 'Z']
TW_SHAPE = [(), (), (0,), (2,), (2,), (3, 4)]
TW_OPS = [(2, (0,)), (2, (1,)), (2, ()), (3, (2,)), (3, (0,)), (3, (1,)), (4, (2,)), (4, (1,)), (5, (3, 4)), (5, (3,)), (5, (4, 3))]


def _tw_reach(shape, i):
    seen, stack = set(), [i]
    while stack:
        x = stack.pop()
        if x not in seen:
            seen.add(x)
            stack.extend(shape[x])
    return seen


def tw_valid(rebases):
    cur = list(TW_SHAPE)
    for (node, nb) in rebases:
        cur[node] = nb
        for i in range(len(cur)):
            r = _tw_reach(cur, i)
            if 0 in r and 1 in r:
                return False      # both twins in one hierarchy: outside the scope (they collide as dictionary keys)
    return True


def run_twin_case(states, rebases):
    from zope.interface import Interface
    from zope.interface.interface import InterfaceClass
    mod = U.fresh_module_name()
    ifaces = []
    for i, bases in enumerate(TW_SHAPE):
        b = tuple(ifaces[j] for j in bases) or (Interface,)
        ifaces.append(InterfaceClass(TW_NAMES[i], b, _mk_attrs(i, states[i]), __module__=mod))
    check_all(ifaces, states, 'twins initial')
    hist = []
    for (node, nb) in rebases:
        ifaces[node].__bases__ = tuple(ifaces[j] for j in nb) or (Interface,)
        hist.append('%s.__bases__=%s' % (TW_NAMES[node] + ('' if node != 1 else "'"), [TW_NAMES[j] + ("'" if j == 1 else '') for j in nb]))
        check_all(ifaces, states, "twins (R and R' are distinct interfaces with the same name and module) after %s" % '; '.join(hist))


def make_e_twins(params, part, nparts):
    L = params['L']
    NO = len(TW_OPS)

    def h(sm: int, n: int, o1: int, o2: int, o3: int):
        c1 = pick(o1, NO)
        assume(c1 % nparts == part)
        ln = pick(n, L) + 1
        idx = [c1] + [pick(o, NO) for o in (o2, o3)[:ln - 1]]
        rebases = [TW_OPS[i] for i in idx]
        assume(tw_valid(rebases))
        states = (1, 2, pick(sm, 3), 0, 0, 0)
        reached((states, tuple(idx)), dict(states=list(states), rebases=[[a, list(b)] for a, b in rebases]))
        native(run_twin_case, states, rebases)
    return h


_ENC = ['zope.interface.interface:Specification.get', 'zope.interface.interface:InterfaceClass.names',
        'zope.interface.interface:InterfaceClass.namesAndDescriptions', 'zope.interface.interface:InterfaceClass.__iter__',
        'zope.interface.interface:InterfaceClass.__contains__', 'zope.interface.interface:InterfaceClass.getDescriptionFor',
        'zope.interface.interface:InterfaceClass.queryDescriptionFor', 'zope.interface.interface:InterfaceClass.direct',
        'zope.interface.interface:InterfaceClass.queryTaggedValue', 'zope.interface.interface:InterfaceClass.getTaggedValue',
        'zope.interface.interface:InterfaceClass.getTaggedValueTags', 'zope.interface.interface:InterfaceClass.validateInvariants',
        'zope.interface.interface:Specification.changed', 'zope.interface.verify:_verify']

HARNESSES = [
    Harness('e_resolve', make_e_resolve, kind='E', impls=('py',),
            tiers=dict(quick=dict(budget_s=60, parts=16, params=dict(n=4, rebases=0)),
                       thorough=dict(budget_s=900, parts=16, params=dict(n=5, rebases=0, maxbases=3))),
            encoded=_ENC,
            bounds='every ordered interface DAG on N=4 nodes (N=5, <=3 bases thorough) x every assignment of '
                   '{undefined, Attribute, Method} / {no tag, tag, tag=None} / {no invariant, passing, failing} per node',
            outside='N>5; more than one name/tag; interplay with __adapt__',
            oracle='first definer along the real __iro__ (C03 decides __iro__ itself); all accessors pairwise; verifyObject as consumer'),
    Harness('e_rebase', make_e_resolve, kind='E', impls=('py',),
            tiers=dict(quick=dict(budget_s=100, parts=16, params=dict(n=3, rebases=2)),
                       thorough=dict(budget_s=900, parts=16, params=dict(n=4, rebases=2, maxbases=2))),
            encoded=_ENC,
            bounds='N=3 (thorough N=4, <=2 bases): every DAG x state assignment with >=2 defining nodes x every history of <=2 __bases__ reassignments '
                   '(acyclic: new bases among lower-indexed nodes), all accessors called before and after each step (warm _v_attrs)',
            outside='cyclic rebasing; histories longer than 2',
            oracle='as e_resolve after every step; final __iro__ equals a freshly built graph of the final shape'),
    Harness('e_twins', make_e_twins, kind='E', impls=('py',),
            tiers=dict(quick=dict(budget_s=100, parts=11, params=dict(L=3)),
                       thorough=dict(budget_s=300, parts=11, params=dict(L=3))),
            encoded=_ENC,
            bounds="roots R and R' (distinct interfaces with identical name and module, different definitions), M(R), L(M), Rt(M), Z(L,Rt); M "
                   "defines nothing / an attribute / a method; every history of <=3 re-basings from 11 that swap one root for the other "
                   "at M, L or Rt or re-order Z's bases; all accessors of all six interfaces before and after every step",
            outside="hierarchies that contain both same-named interfaces at once (they collide as dictionary keys; not a supported configuration)",
            oracle='as e_resolve after every step (objects identified by identity, never by name)'),
]

MANIFEST = {
    'engine': 'symx',
    'technique': 'symbolic execution (CrossHair engine + z3) of the real accessors over solver-enumerated interface DAGs, '
                 'definition assignments and rebasing histories',
    'text': 'Bounded-exhaustive: every ordered DAG up to N nodes with every assignment of definitions, and every rebasing history '
            'up to length 2, is run through all accessors, which must agree with the first definer along __iro__. Disagreement needs '
            'particular diamonds/overrides, which small-scope exhaustion covers.',
    'note': 'Trusted: CrossHair path-tree exhaustion; __iro__ correctness is C03\'s obligation.',
}
