"""C07 subscriptions() returns every applicable subscriber, with multiplicity, in order."""
import itertools

from vlib.harness import Harness
from vlib.symx import Violation, assume, native, pick, reached
from vlib import regmodel as M
from vlib import regprog as RP
from props.C04 import AssocMap, StubSpec, index_of


# ---------------------------------------------------------------------------
# S tier: the real module-level _subscriptions on symbolic nested maps
# ---------------------------------------------------------------------------

def make_s_subscriptions(params, part, nparts):
    """Arity 1.  components = {req_id: {prov_id: {'': leaf tuple}}} as association lists with symbolic int keys and
    symbolic leaf values; symbolic duplicate-free __sro__ and extendors list.  Oracle: the leaves of all applicable
    entries concatenated in the order (least specific required first, then most specific provided last = reversed
    extendors), each leaf in its own order."""
    from zope.interface.adapter import _subscriptions
    K = params.get('keys', 2)
    S = params.get('sro', 3)
    E = 2

    def h(nent: int, slen: int, elen: int, s0: int, s1: int, s2: int, e0: int, e1: int,
          r0: int, r1: int, r2: int, p0: int, p1: int, p2: int,
          l0: int, l1: int, l2: int, v0: int, v1: int, v2: int, w0: int, w1: int, w2: int):
        c_n = pick(nent, K + 1)
        c_s = pick(slen, S) + 1
        c_e = pick(elen, E) + 1
        assume((c_n * S + (c_s - 1)) % nparts == part)
        sro = [s0, s1, s2][:c_s]
        ext = [e0, e1][:c_e]
        for i in range(len(sro)):
            for j in range(i + 1, len(sro)):
                assume(sro[i] != sro[j])
        for i in range(len(ext)):
            for j in range(i + 1, len(ext)):
                assume(ext[i] != ext[j])
        rk, pk = [r0, r1, r2][:c_n], [p0, p1, p2][:c_n]
        lens = [pick(x, 2) + 1 for x in [l0, l1, l2][:c_n]]       # leaves hold 1 or 2 values (never empty: Inv)
        leaves = [tuple([(v0, w0), (v1, w1), (v2, w2)][i][:lens[i]]) for i in range(c_n)]
        for i in range(c_n):  # representation invariant: one leaf per (req, prov)
            for j in range(i + 1, c_n):
                assume(not (rk[i] == rk[j] and pk[i] == pk[j]))
        comps = AssocMap()
        for i in range(c_n):
            d1 = comps.get(rk[i])
            if d1 is None:
                d1 = AssocMap()
                comps.items_.append((rk[i], d1))
            d2 = d1.get(pk[i])
            if d2 is None:
                d2 = AssocMap()
                d1.items_.append((pk[i], d2))
            d2.items_.append(('', leaves[i]))
        spec = StubSpec(sro)
        reached(None, dict(sro=sro, extendors=ext, entries=[(rk[i], pk[i], leaves[i]) for i in range(c_n)]))
        got = []
        _subscriptions(comps, [spec], ext, '', got, 0, 1)
        ranked = []
        for i in range(c_n):
            pr = index_of(sro, rk[i])
            pp = index_of(ext, pk[i])
            if pr < 0 or pp < 0:
                continue
            ranked.append((pr, pp, i))
        # expected order: descending position in sro (least specific first), then descending position in extendors
        exp = []
        while ranked:
            best = ranked[0]
            for t in ranked[1:]:
                if (t[0], t[1]) > (best[0], best[1]):
                    best = t
            ranked.remove(best)
            exp.extend(leaves[best[2]])
        if len(got) != len(exp):
            raise Violation('_subscriptions returned %d values, %d applicable' % (len(got), len(exp)), signature='C07:kernel:multiset')
        for a, b in zip(got, exp):
            if a != b:
                raise Violation('_subscriptions returned %r, expected %r' % (got, exp), signature='C07:kernel:order')
    return h


# ---------------------------------------------------------------------------
# E tier: subscribe/unsubscribe histories on real registry chains
# ---------------------------------------------------------------------------

VALS = ['a', ('a2', 'a'), 'b']          # 'a2' is == 'a' but a distinct object


def alphabet(kind):
    ops = []
    if kind == 'wide':
        for ri in (0, 1):
            for req in ((1,), (2,), (0,)):          # R0, R1, None
                for pi in (None, 0, 1):
                    for v in VALS:
                        ops.append(('subscribe', ri, req, pi, '', v))
                    for v in ('a', None, 'b'):
                        ops.append(('unsubscribe', ri, req, pi, '', v))
    elif kind == 'deep':
        for req in ((1,), (2,)):
            for pi in (None, 0):
                for v in VALS:
                    ops.append(('subscribe', 0, req, pi, '', v))
                for v in ('a', None, 'b'):
                    ops.append(('unsubscribe', 0, req, pi, '', v))
        ops.append(('subscribe', 1, (1,), 0, '', 'c'))
        ops.append(('subscribe', 1, (1,), None, '', 'c'))
        ops.append(('unsubscribe', 1, (1,), None, '', None))
        # a class declaration (implementedBy(K0)) as the required key: found through the __sro__ of class / instance declarations only
        ops.append(('subscribe', 0, (5,), 0, '', 'a'))
        ops.append(('subscribe', 0, (5,), None, '', 'b'))
        ops.append(('unsubscribe', 0, (5,), 0, '', None))
        # a provided interface that extends P0: when its last subscriber goes, P0's own subscribers must stay visible
        ops.append(('subscribe', 0, (1,), 1, '', 'b'))
        ops.append(('unsubscribe', 0, (1,), 1, '', None))
    else:  # 'arity'
        for req in ((), (1, 1), (2, 1), (0, 2), (2, 2)):
            for pi in (None, 0, 1):
                for v in ('a', ('a2', 'a')):
                    ops.append(('subscribe', 0, req, pi, '', v))
                ops.append(('unsubscribe', 0, req, pi, '', 'a'))
            ops.append(('subscribe', 1, req, 0, '', 'c'))
    return ops


def check_state(u, model, hist, arities, pool2):
    pool = u.lookup_pool()
    for ri in range(len(u.regs)):
        reg = u.regs[ri]
        for a in arities:
            idx = range(len(pool)) if a < 2 else pool2
            for combo in itertools.product(idx, repeat=a):
                specs = [pool[c] for c in combo]
                for pi in (None, 0, 1, 3):
                    p = u.P[pi] if pi is not None else None
                    exp = M.subscriptions_expected(model, u, ri, specs, p)
                    what = 'history [%s]: reg%d.subscriptions((%s), %s)' % (
                        hist, ri, ', '.join(u.lookup_names()[c] for c in combo), 'P%d' % pi if pi is not None else 'None')
                    if p is not None:
                        reg.lookupAll(specs, p)      # the neighbouring collector, same key: its cache must not be the one subscriptions() reads
                    got = reg.subscriptions(specs, p)
                    err = M.check_subscriptions(got, exp, what)
                    if err:
                        raise Violation(err, signature='C07:' + ('multiset' if 'multiset' in err else 'order'))
                    again = reg.subscriptions(specs, p)
                    if len(again) != len(got) or any(x is not y for x, y in zip(again, got)):
                        raise Violation('%s: a repeated call returns %r after %r' % (what, again, got), signature='C07:repeat')
        # bookkeeping views: allSubscriptions and subscribed
        got = [(tuple(id(x) for x in req), id(prov) if prov is not None else 0, id(v))
               for (req, prov, v) in reg.allSubscriptions()]
        norm = [(tuple(id(u.Interface) if x is None else id(x) for x in s[0]), id(s[1]) if s[1] is not None else 0, id(s[2]))
                for s in model.subs[ri]]
        if sorted(got) != sorted(norm):
            raise Violation('history [%s]: reg%d.allSubscriptions() lists %d entries, %d are live' % (hist, ri, len(got), len(norm)),
                            signature='C07:allSubscriptions')
        for (req, prov, v) in model.subs[ri]:
            if reg.subscribed(list(req), prov, v) is not v:
                raise Violation('history [%s]: reg%d.subscribed() does not find a live subscriber' % (hist, ri), signature='C07:subscribed')


def run_history(kind, flavour, ops):
    u = M.RegUniverse(flavour=flavour, nregs=2)
    model = M.Model(2)
    arities = sorted({len(op[2]) for op in ops}) or [1]
    pool2 = (1, 3, 4, 6)
    check_state(u, model, '', arities, pool2)       # warms every cache on the empty registries
    for k, op in enumerate(ops):
        RP.apply_op(u, model, op)
        check_state(u, model, RP.fmt(ops[:k + 1]), arities, pool2)
        # a subscriber that was never subscribed under a key is not found there
        ghost = u.val('ghost')
        pool = u.req_pool()
        if u.regs[op[1]].subscribed([pool[q] for q in op[2]], u.P[op[3]] if op[3] is not None else None, ghost) is not None:
            raise Violation('subscribed() finds a value that was never subscribed', signature='C07:subscribed')


def make_e(params, part, nparts):
    kind = params['kind']
    alpha = alphabet(kind)
    NA = len(alpha)
    L = params['L']
    flavour = params.get('flavour', 'adapter')

    def h(n: int, o1: int, o2: int, o3: int, o4: int):
        c1 = pick(o1, NA)
        assume(c1 % nparts == part)
        ln = pick(n, L) + 1
        idx = [c1] + [pick(o, NA) for o in (o2, o3, o4)[:ln - 1]]
        ops = tuple(alpha[i] for i in idx)
        reached(tuple(idx), dict(kind=kind, flavour=flavour, history=RP.fmt(ops)))
        native(run_history, kind, flavour, ops)
    return h


_ENC = ['zope.interface.adapter:_subscriptions', 'zope.interface.adapter:AdapterLookupBase._uncached_subscriptions',
        'zope.interface.adapter:BaseAdapterRegistry.subscribe', 'zope.interface.adapter:BaseAdapterRegistry.unsubscribe',
        'zope.interface.adapter:BaseAdapterRegistry._addValueToLeaf', 'zope.interface.adapter:BaseAdapterRegistry._removeValueFromLeaf',
        'zope.interface.adapter:BaseAdapterRegistry.subscribed', 'zope.interface.adapter:BaseAdapterRegistry.allSubscriptions',
        'zope.interface.adapter:LookupBaseFallback.subscriptions', 'zope.interface._zope_interface_coptimizations:LookupBase']

_OR = ('multiset (by identity) of the model\'s live subscriptions applicable to the key; precedence relations from the statement: base registry '
       'before derived, component-wise less specific required before more specific, identical keys in subscription order (partial order, '
       'nothing incidental demanded); allSubscriptions()/subscribed() against the model')

HARNESSES = [
    Harness('s_subscriptions', make_s_subscriptions, kind='S', impls=('py',),
            tiers=dict(quick=dict(budget_s=100, parts=9, ppt=40, params=dict(keys=2, sro=3)),
                       thorough=dict(budget_s=1500, parts=12, ppt=60, params=dict(keys=3, sro=3))),
            encoded=['zope.interface.adapter:_subscriptions'],
            bounds='arity 1; <=2 (thorough 3) leaves of 1-2 symbolic values under symbolic int keys; symbolic duplicate-free __sro__ of length <=3, '
                   'extendors list of length <=2',
            outside='arity>1 at this tier (E tier); longer sro/extendors',
            oracle='concatenation of the applicable leaves ordered by descending (position in __sro__, position in extendors)',
            stubs=['nested dicts replaced by ==-matching association lists', 'stub spec object carrying __sro__'],
            assumptions=['representation invariant: one non-empty leaf per (required, provided)']),
    Harness('e_subs_wide', make_e, kind='E', impls=('py', 'c'),
            tiers=dict(quick=dict(budget_s=150, parts=16, params=dict(kind='wide', L=2), impls=('py',)),
                       thorough=dict(budget_s=3000, parts=16, params=dict(kind='wide', L=3), impls=('py',))),
            encoded=_ENC,
            bounds='2-registry chain; every history of <=2 (thorough 3) ops from 108: subscribe of a / a2 (== a, distinct object) / b and '
                   'unsubscribe of a / everything / b, for required R0 / R1 / None x provided None (handler) / P0 / P1 x either registry; after '
                   'every op subscriptions() for every arity-1 key (8 specs x {handlers, P0, P1, P3}) from both registries (caches stay warm)',
            outside='histories longer than the bound; arity>2', oracle=_OR),
    Harness('e_subs_deep', make_e, kind='E', impls=('py', 'c'),
            tiers=dict(quick=dict(budget_s=150, parts=16, params=dict(kind='deep', L=3), impls=('c',)),
                       thorough=dict(budget_s=3000, parts=16, params=dict(kind='deep', L=4))),
            encoded=_ENC,
            bounds='as e_subs_wide with a 27-op alphabet (derived registry: R0/R1 x handler/P0 x a/a2/b and unsubscribes; base registry: c) and '
                   'histories of <=3 (thorough 4) ops', oracle=_OR),
    Harness('e_subs_arity', make_e, kind='E', impls=('py', 'c'),
            tiers=dict(quick=dict(budget_s=150, parts=16, params=dict(kind='arity', L=2)),
                       thorough=dict(budget_s=3000, parts=16, params=dict(kind='arity', L=3))),
            encoded=_ENC,
            bounds='arity 0 and arity 2 keys ((R0,R0), (R1,R0), (None,R1), (R1,R1)): every history of <=2 (thorough 3) ops from 50; arity-2 lookups '
                   'over 4x4 looked-up specifications', oracle=_OR),
]

for _k in HARNESSES:
    if _k.name in ('s_subscriptions',):
        _k.stub_kernel = True      # drives private functions / extension points with stub containers (see vlib.runner)

MANIFEST = {
    'engine': 'symx',
    'technique': 'symbolic execution (CrossHair engine + z3): the real adapter._subscriptions on symbolic nested maps / symbolic __sro__ (kernel), '
                 'plus solver-enumerated subscribe/unsubscribe histories (duplicates, equal-but-distinct values, handlers, arity 0-2) on real '
                 'registry chains of both builds with a multiset + precedence oracle',
    'text': 'Kernel: for every content of the nested subscriber maps within the size bound and every duplicate-free resolution order the '
            'collector returns exactly the applicable leaves in the documented order. End to end: every subscribe/unsubscribe history up to '
            'the bound on a 2-registry chain, with every key looked up after every step.',
    'note': 'Trusted: the precedence oracle (three relations, written from the statement).',
}
