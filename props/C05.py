"""C05 Lookup caches are transparent: answers never depend on earlier lookups."""
from vlib.harness import Harness
from vlib.symx import Violation, assume, native, pick, reached
from vlib import regmodel as M
from vlib import regprog as RP


def alphabet(level):
    ops = []
    for ri in (0, 1):
        ops += [('register', ri, (1,), 0, '', 'a'), ('register', ri, (2,), 0, '', 'a2'),
                ('register', ri, (5,), 0, '', 'k'), ('register', ri, (1,), 1, '', 'p1'),
                ('register', ri, (1,), 0, 'n', 'b'), ('register', ri, (1,), 0, '', 'c'),
                ('unregister', ri, (1,), 0, '', None), ('unregister', ri, (5,), 0, '', None),
                ('subscribe', ri, (1,), 0, '', 's'), ('subscribe', ri, (1,), None, '', 'h'),
                ('unsubscribe', ri, (1,), 0, '', None), ('unsubscribe', ri, (1,), None, '', 'h'),
                ('register', ri, (1, 1), 0, '', 'm'), ('register', ri, (), 0, '', 'z')]
        if level >= 2:
            ops += [('register', ri, (0,), 0, '', 'g'), ('register', ri, (3,), 3, '', 'd'),
                    ('subscribe', ri, (2,), 1, '', 's2'), ('unsubscribe', ri, (1,), 0, '', 's'),
                    ('register', ri, (1, 2), 0, '', 'm2'), ('unregister', ri, (1, 1), 0, '', None)]
    ops += [('setbases', 0, ()), ('setbases', 0, (1,)),
            ('ibases', ('R', 3), (1,)), ('ibases', ('R', 3), (2, 1)), ('ibases', ('R', 1), ()),
            ('classImplements', 'K0', 2), ('classImplementsOnly', 'K1', 0), ('classImplements', 'KU', 1),
            ('directlyProvides', 2, (1,)), ('directlyProvides', 2, ()), ('alsoProvides', 0, 3),
            ('noLongerProvides', 2, 2), ('alsoProvides', 3, 1)]
    ops += [('rebuild', 0), ('rebuild', 1)]       # public since 5.3.0: replaces every internal structure, re-registers everything
    return ops


def run_history(flavour, ops, arities):
    warm = M.RegUniverse(flavour=flavour, nregs=2)
    wm = M.Model(2)
    RP.observe_all(warm, arities=arities)       # caches warm before the first mutation
    for k, op in enumerate(ops):
        RP.apply_op(warm, wm, op)
        got = RP.observe_all(warm, arities=arities)
        cold = M.RegUniverse(flavour=flavour, nregs=2)
        cm = M.Model(2)
        for o in ops[:k + 1]:
            RP.apply_op(cold, cm, o)
        exp = RP.observe_all(cold, arities=arities)
        d = RP.diff(got, exp)
        if d:
            ri, key, g, e = d
            raise Violation('%s registries, history [%s] with every lookup repeated after each step: reg%d %r = %r, '
                            'a registry without earlier lookups answers %r' % (flavour, RP.fmt(ops[:k + 1]), ri, key, g, e),
                            signature='C05:stale:%s:after-%s' % (key[0], op[0]))


def make_e_history(params, part, nparts):
    alpha = alphabet(params.get('level', 1))
    L = params['L']
    flavour = params['flavour']
    NA = len(alpha)
    arities = tuple(params.get('arities', (0, 1, 2)))

    def h(n: int, o1: int, o2: int, o3: int):
        c1 = pick(o1, NA)
        assume(c1 % nparts == part)
        ln = pick(n, L) + 1
        assume(ln >= params.get('minlen', 1))
        idx = [c1] + [pick(o, NA) for o in (o2, o3)[:ln - 1]]
        ops = tuple(alpha[i] for i in idx)
        reached(tuple(idx), dict(flavour=flavour, history=RP.fmt(ops)))
        native(run_history, flavour, ops, arities)
    return h


# ---------------------------------------------------------------------------
# Partial warm-up: only one or two chosen lookups happen before the mutation
# (a cache/subscription edge that "query everything" would mask)
# ---------------------------------------------------------------------------

PW_REGS = [('register', 0, (1, 2), 0, '', 'm2'), ('register', 0, (1, 1), 0, '', 'm'), ('register', 0, (2, 2), 0, '', 'mm'),
           ('register', 1, (1, 2), 0, '', 'b2'), ('subscribe', 0, (1, 2), 0, '', 's'), ('register', 0, (2, 1), 0, '', 'm21'),
           ('register', 0, (0, 3), 0, '', 'm03'), ('subscribe', 0, (2, 2), None, '', 'h')]
PW_POOL = [1, 4, 6, 3]   # R1, implementedBy(K0), providedBy(K0()+R2), R3
PW_MUT = [('classImplements', 'K0', 2), ('classImplementsOnly', 'K0', 2), ('classImplementsOnly', 'K1', 0),
          ('directlyProvides', 2, (1,)), ('directlyProvides', 2, ()), ('noLongerProvides', 2, 2),
          ('ibases', ('R', 3), (1,)), ('ibases', ('R', 3), (2, 1)), ('ibases', ('R', 1), ()), ('ibases', ('R', 2), (1,)),
          ('register', 0, (1, 2), 0, '', 'new'), ('unregister', 0, (1, 2), 0, '', None), ('setbases', 0, ())]
PW_ENTRY = ['lookup', 'lookupAll', 'subscriptions']


def _pw_query(u, ri, entry, combo):
    pool = u.lookup_pool()
    specs = [pool[c] for c in combo]
    reg = u.regs[ri]
    if entry == 'lookup':
        return M._tag(reg.lookup(specs, u.P[0], ''))
    if entry == 'lookupAll':
        return sorted((n, M._tag(v)) for n, v in reg.lookupAll(specs, u.P[0]))
    return ([M._tag(v) for v in reg.subscriptions(specs, u.P[0])],
            [M._tag(v) for v in reg.subscriptions(specs, None)])


def run_partial(flavour, regop, w1, w2, mut):
    warm = M.RegUniverse(flavour=flavour, nregs=2)
    model = M.Model(2)
    RP.apply_op(warm, model, regop)
    if w1 is not None:
        _pw_query(warm, 0, 'lookup', w1)
    _pw_query(warm, 0, w2[0], w2[1])
    RP.apply_op(warm, model, mut)
    got = _pw_query(warm, 0, w2[0], w2[1])
    cold = M.RegUniverse(flavour=flavour, nregs=2)
    cm = M.Model(2)
    RP.apply_op(cold, cm, regop)
    RP.apply_op(cold, cm, mut)
    exp = _pw_query(cold, 0, w2[0], w2[1])
    if got != exp:
        names = warm.lookup_names()
        raise Violation('%s: [%s]; lookup %s; %s %s; then %s; same %s again gives %r, a registry without earlier lookups gives %r' % (
            flavour, RP.fmt([regop]), None if w1 is None else [names[c] for c in w1], w2[0], [names[c] for c in w2[1]],
            RP.fmt([mut]), w2[0], got, exp), signature='C05:stale:%s:after-%s' % (w2[0], mut[0]))


def make_e_partial(params, part, nparts):
    flavour = params['flavour']
    NP = len(PW_POOL)
    NW1 = params.get('w1', NP)

    def h(r: int, a: int, e: int, b1: int, b2: int, m: int):
        c_r = pick(r, len(PW_REGS))
        c_m = pick(m, len(PW_MUT))
        assume((c_r * len(PW_MUT) + c_m) % nparts == part)
        c_a = pick(a, NW1 + 1)
        w1 = None if c_a == NW1 else (PW_POOL[c_a],)
        w2 = (PW_ENTRY[pick(e, 3)], (PW_POOL[pick(b1, NP)], PW_POOL[pick(b2, NP)]))
        key = (c_r, c_a, w2, c_m)
        reached(key, dict(flavour=flavour, registration=RP.fmt([PW_REGS[c_r]]), first=w1, second=w2, mutation=RP.fmt([PW_MUT[c_m]])))
        native(run_partial, flavour, PW_REGS[c_r], w1, w2, PW_MUT[c_m])
    return h


# ---------------------------------------------------------------------------
# E tier: a mutation made *during* a lookup, from the point where the lookup calls out into a required specification
# (its subscribe(): the lookup registers itself as a dependent of every specification it was asked about)
# ---------------------------------------------------------------------------

DU_ENTRY = ['lookup', 'lookupAll', 'names', 'subscriptions', 'lookup1', 'lookup(named)']
DU_MUT = ["register([IR], IP, 'b', 'B')", "register([IR], IP, '', 'NEW')", "subscribe([IR], IP, 's2')", "unregister([IR], IP, 'a')",
          "register([IRsub], IP, 'a', 'A2')  (more specific)"]


def run_during(flavour, entry, mut, warm_other, trace=False):
    from zope.interface import Interface
    from zope.interface.adapter import AdapterRegistry, VerifyingAdapterRegistry
    from zope.interface.interface import InterfaceClass
    R = AdapterRegistry if flavour == 'adapter' else VerifyingAdapterRegistry

    def build(armed):
        st = dict(armed=armed)

        class Hooked(InterfaceClass):
            def subscribe(self, dependent):
                InterfaceClass.subscribe(self, dependent)
                if st['armed']:
                    st['armed'] = False
                    mutate(st)
        mod = 'vp_during'
        st['IR'] = InterfaceClass('IR', (Interface,), {}, __module__=mod)
        st['IRsub'] = Hooked('IRsub', (st['IR'],), {}, __module__=mod)
        st['IP'] = InterfaceClass('IP', (Interface,), {}, __module__=mod)
        st['IQ'] = InterfaceClass('IQ', (Interface,), {}, __module__=mod)
        reg = st['reg'] = R()
        reg.register([st['IR']], st['IP'], 'a', 'A')
        reg.register([st['IR']], st['IP'], '', 'OLD')
        reg.subscribe([st['IR']], st['IP'], 's1')
        return st

    def mutate(st):
        reg = st['reg']
        if mut == 0:
            reg.register([st['IR']], st['IP'], 'b', 'B')
        elif mut == 1:
            reg.register([st['IR']], st['IP'], '', 'NEW')
        elif mut == 2:
            reg.subscribe([st['IR']], st['IP'], 's2')
        elif mut == 3:
            reg.unregister([st['IR']], st['IP'], 'a')
        else:
            reg.register([st['IRsub']], st['IP'], 'a', 'A2')

    def call(st):
        reg, spec, IP = st['reg'], st['IRsub'], st['IP']
        e = DU_ENTRY[entry]
        if e == 'lookup':
            return reg.lookup([spec], IP, '')
        if e == 'lookupAll':
            return sorted(reg.lookupAll([spec], IP))
        if e == 'names':
            return sorted(reg.names([spec], IP))
        if e == 'subscriptions':
            return list(reg.subscriptions([spec], IP))
        if e == 'lookup1':
            return reg.lookup1(spec, IP, '')
        return reg.lookup([spec], IP, 'a')
    before = call(build(False))
    cold = build(False)
    mutate(cold)
    after = call(cold)
    st = build(True)
    if warm_other:
        st['armed'] = False
        st['reg'].lookup([st['IR']], st['IQ'], '')      # caches exist, for another key and another specification
        st['armed'] = True
    first = call(st)
    if st['armed']:
        return None if trace else False             # the call-out point was not reached
    second = call(st)
    if trace:
        return dict(first=repr(first), second=repr(second))
    what = '%s: %s of a specification whose subscribe() runs %s while the lookup is in progress' % (flavour, DU_ENTRY[entry], DU_MUT[mut])
    if first != before and first != after:
        raise Violation('%s: answers %r, before the mutation the answer is %r, after it %r' % (what, first, before, after), signature='C05:during:first')
    if second != after:
        raise Violation('%s: the same call repeated afterwards answers %r; a registry without earlier lookups answers %r' % (what, second, after),
                        signature='C05:during:stale:%s' % DU_ENTRY[entry])
    return True


def make_e_during(params, part, nparts):
    def h(f: int, e: int, m: int, w: int):
        case = (('adapter', 'verifying')[pick(f, 2)], pick(e, len(DU_ENTRY)), pick(m, len(DU_MUT)), pick(w, 2))
        ok = native(run_during, *case)
        assume(ok)
        reached(case, dict(flavour=case[0], entry=DU_ENTRY[case[1]], mutation=DU_MUT[case[2]], other_key_cached=bool(case[3])))
    return h


# ---------------------------------------------------------------------------
# S tier (inductive): the real LookupBaseFallback cache layer, one step from an
# arbitrary cache state satisfying Inv
# ---------------------------------------------------------------------------

def make_s_cache_step(params, part, nparts):
    """Pre-state: the lookup cache holds up to 2 arbitrary entries (symbolic key ids, symbolic
    cached values) satisfying Inv = "every cached entry equals the current uncached answer for
    its key".  The uncached answer is an uninterpreted function given by a symbolic table.
    One call of lookup / lookup1 / lookupAll / subscriptions / changed with a symbolic key:
    result must equal the current uncached answer (or the default object for None), Inv must
    hold afterwards; after changed() nothing cached survives."""
    from zope.interface.adapter import LookupBaseFallback
    from props.C04 import AssocMap
    NK = params.get('keys', 2)

    class KeyObj:
        """Hashable key whose identity is a symbolic int: equality by the int, constant hash
        (a valid hash: equal objects hash equal), so real dicts never realise the symbol."""
        __slots__ = ('k',)

        def __init__(self, k):
            self.k = k

        def __eq__(self, other):
            return isinstance(other, KeyObj) and self.k == other.k

        def __hash__(self):
            return 0

    def h(op: int, k_req: int, k_prov: int, named: int, dflt: int,
          c0_req: int, c0_prov: int, c0_named: int, c1_req: int, ncached: int,
          t0: int, t1: int, t2: int, t3: int, t4: int, t5: int, t6: int, t7: int):
        c_op = pick(op, 5)
        nc = pick(ncached, NK + 1)
        c_named = pick(named, 2)
        # key identities are decoded (two specifications per position suffice to alias or not);
        # the uncached answers stay symbolic: an uninterpreted function = one symbol per key
        k_req, k_prov = pick(k_req, 2), pick(k_prov, 2)
        assume((c_op * 2 + k_req) % nparts == part)
        c0_req, c0_prov, c0_named, c1_req = pick(c0_req, 2), pick(c0_prov, 2), pick(c0_named, 2), pick(c1_req, 2)
        if c_op >= 2:
            assume(dflt == 0)
        T = (t0, t1, t2, t3, t4, t5, t6, t7)

        def answer(req, prov, nm):
            v = T[req * 4 + prov * 2 + nm]
            return None if v == 0 else ('ans', v)   # 0 encodes "nothing registered"

        calls = []

        class LB(LookupBaseFallback):
            def _uncached_lookup(self, required, provided, name=''):
                calls.append('lookup')
                return answer(required[0].k, provided.k, 1 if name else 0)

            def _uncached_lookupAll(self, required, provided):
                calls.append('lookupAll')
                return ('all', answer(required[0].k, provided.k, 0))

            def _uncached_subscriptions(self, required, provided):
                calls.append('subscriptions')
                return ('subs', answer(required[0].k, provided.k, 0))

        lb = LB()
        # pre-state satisfying Inv, built directly (not by a history)
        cached = [(c0_req, c0_prov, c0_named), (c1_req, c0_prov, c0_named)][:nc]
        for (r, p, n) in cached:
            cache = lb._getcache(KeyObj(p), 'n' if n else '')
            cache[KeyObj(r)] = answer(r, p, n)
            lb._mcache.setdefault(KeyObj(p), {})[(KeyObj(r),)] = ('all', answer(r, p, 0))
            lb._scache.setdefault(KeyObj(p), {})[(KeyObj(r),)] = ('subs', answer(r, p, 0))
        req, prov = KeyObj(k_req), KeyObj(k_prov)
        name = 'n' if c_named else ''
        default = ('default',) if pick(dflt, 2) else None
        reached(None, dict(op=c_op, key=(k_req, k_prov, c_named), cached=cached))
        truth = answer(k_req, k_prov, c_named)
        if c_op == 0:
            got = lb.lookup((req,), prov, name, default)
            exp = default if truth is None else truth
        elif c_op == 1:
            got = lb.lookup1(req, prov, name, default)
            exp = default if truth is None else truth
        elif c_op == 2:
            got = lb.lookupAll((req,), prov)
            exp = ('all', answer(k_req, k_prov, 0))
        elif c_op == 3:
            got = lb.subscriptions((req,), prov)
            exp = ('subs', answer(k_req, k_prov, 0))
        else:
            lb.changed(None)
            got = exp = None
            if lb._cache or lb._mcache or lb._scache:
                raise Violation('changed() left cached entries behind', signature='C05:kernel:changed')
        if got != exp or (exp is default and got is not default and default is not None):
            raise Violation('op %d key %r: got %r expected %r (cached %r)' % (c_op, (k_req, k_prov, c_named), got, exp, cached),
                            signature='C05:kernel:answer')
        # Inv again: every cached single-lookup entry equals the current answer of its key
        for pk, sub in list(lb._cache.items()):
            for k2, v2 in list(sub.items()):
                if isinstance(k2, str):
                    for k3, v3 in list(v2.items()):
                        if v3 != answer(k3.k, pk.k, 1):
                            raise Violation('Inv broken for named entry', signature='C05:kernel:inv')
                elif v2 != answer(k2.k, pk.k, 0):
                    raise Violation('Inv broken for unnamed entry', signature='C05:kernel:inv')
    return h


def make_s_verify_step(params, part, nparts):
    """Generation check of the real Python VerifyingBase as one symbolic step.  A registry chain of
    n <= 4 registries carries *symbolic* `_generation` counters; the lookup object takes its
    snapshot (`changed`), one entry point is queried (answer a1 cached), then every generation and
    the uncached answer move to arbitrary values constrained only by the contract "the uncached
    answer can differ only if the generation of some registry in ro[1:] moved" (the front
    registry's own changes reach the lookup through changed(), not through generations).  The same
    query must now return the current uncached answer, and a detected change must refresh the
    snapshot to the current generations of exactly ro[1:]."""
    from zope.interface.adapter import VerifyingBaseFallback

    class R:
        __slots__ = ('_generation', 'ro')

    def h(n: int, ep: int, named: int, a1: int, a2: int,
          g0: int, g1: int, g2: int, g3: int, h0: int, h1: int, h2: int, h3: int):
        c_n = pick(n, 4) + 1
        c_ep = pick(ep, 5)
        assume((c_ep * 4 + c_n - 1) % nparts == part)
        c_named = pick(named, 2)
        pre, post = (g0, g1, g2, g3)[:c_n], (h0, h1, h2, h3)[:c_n]
        moved = False
        for i in range(1, c_n):
            moved = moved or (pre[i] != post[i])
        assume(moved or a1 == a2)
        chain = []
        for i in range(c_n):
            r = R()
            r._generation = pre[i]
            chain.append(r)
        chain[0].ro = chain
        now = [a1]

        class VB(VerifyingBaseFallback):
            _registry = chain[0]

            def _uncached_lookup(self, required, provided, name=''):
                return ('ans', now[0])

            def _uncached_lookupAll(self, required, provided):
                return ('all', now[0])

            def _uncached_subscriptions(self, required, provided):
                return ('subs', now[0])

        vb = VB()
        vb.changed(None)
        name = 'n' if c_named else ''

        def query():
            if c_ep == 0:
                return vb.lookup(('r',), 'p', name)
            if c_ep == 1:
                return vb.lookup1('r', 'p', name)
            if c_ep == 2:
                return vb.lookup(('r', 'r2'), 'p', name)
            if c_ep == 3:
                return vb.lookupAll(('r',), 'p')
            return vb.subscriptions(('r',), 'p')
        tag = ('ans', 'ans', 'ans', 'all', 'subs')[c_ep]
        reached(None, dict(n=c_n, entry=c_ep))
        first = query()
        if first != (tag, a1):
            raise Violation('first query returned %r, uncached answer %r' % (first, (tag, a1)), signature='C05:verify-kernel:first')
        for i in range(c_n):
            chain[i]._generation = post[i]
        now[0] = a2
        second = query()
        if second != (tag, a2):
            raise Violation('chain of %d registries, entry %d: generations %r -> %r; the repeated query answers %r, the uncached answer is now %r '
                            '(a change of a base registry was not noticed)' % (c_n, c_ep, list(pre), list(post), second, (tag, a2)),
                            signature='C05:verify-kernel:stale')
        if moved:
            snap = list(vb._verify_generations)
            if snap != list(post[1:]) or len(vb._verify_ro) != c_n - 1:
                raise Violation('after a detected change the snapshot is %r, current generations of ro[1:] are %r' % (snap, list(post[1:])),
                                signature='C05:verify-kernel:snapshot')
    return h


def make_e_snap(params, part, nparts):
    """Chains of 2..4 VerifyingAdapterRegistry (vlib.traceprog family 'snap'): a mutation in any registry behind the front one, caches
    warm or cold; the 8 entry points of the front registry must answer as a chain built afterwards does."""
    from vlib import traceprog as TP

    def run(prog):
        tr = TP.run_snap(prog)
        if tr is not None and tr['stale']:
            bad = [i for i, (a, b) in enumerate(zip(tr['after'], tr['fresh'])) if a != b]
            names = ['lookup', 'lookup1', 'queryAdapter', 'adapter_hook', 'lookupAll', 'names', 'subscriptions', 'lookup(arity 2)']
            raise Violation('chain of %d VerifyingAdapterRegistry, %s in registry #%d of the resolution order, caches %s: %s answers %s, a chain '
                            'without earlier lookups answers %s' % (prog[0], TP.SNAP_MUT[prog[2]], prog[1], 'warm' if prog[3] else 'cold',
                                                                   names[bad[0]], tr['after'][bad[0]], tr['fresh'][bad[0]]),
                            signature='C05:snap:stale')

    def h(L: int, k: int, m: int, w: int, f: int = 0):
        cL = pick(L, 3) + 2
        ck = pick(k, 3) + 1
        assume(ck < cL)
        cm = pick(m, len(TP.SNAP_MUT))
        assume((cL * len(TP.SNAP_MUT) + cm) % nparts == part)
        prog = [cL, ck, cm, pick(w, 2), pick(f, 8)]
        reached(tuple(prog), dict(program=prog))
        native(run, prog)
    return h


_ENC = ['zope.interface.adapter:LookupBaseFallback.lookup', 'zope.interface.adapter:LookupBaseFallback.lookup1',
        'zope.interface.adapter:LookupBaseFallback.adapter_hook', 'zope.interface.adapter:LookupBaseFallback.lookupAll',
        'zope.interface.adapter:LookupBaseFallback.subscriptions', 'zope.interface.adapter:LookupBaseFallback.changed',
        'zope.interface.adapter:LookupBaseFallback._getcache', 'zope.interface.adapter:VerifyingBaseFallback._verify',
        'zope.interface.adapter:VerifyingBaseFallback.changed', 'zope.interface.adapter:AdapterLookupBase._subscribe',
        'zope.interface.adapter:AdapterLookupBase.changed', 'zope.interface.adapter:BaseAdapterRegistry.changed',
        'zope.interface.adapter:AdapterRegistry.changed', 'zope.interface.interface:Specification.changed',
        'zope.interface._zope_interface_coptimizations:LookupBase', 'zope.interface._zope_interface_coptimizations:VerifyingBase']


def _tiers(flavour):
    return dict(quick=dict(budget_s=120, parts=8, params=dict(L=2, flavour=flavour, level=1, arities=(0, 1, 2))),
                thorough=dict(budget_s=2400, parts=16, params=dict(L=3, flavour=flavour, level=1, arities=(0, 1, 2))))


HARNESSES = [
    Harness('e_history_adapter', make_e_history, kind='E', impls=('py', 'c'), tiers=_tiers('adapter'), encoded=_ENC,
            bounds='2-registry chain (AdapterRegistry); every history of <=2 (thorough 3) mutations from an alphabet of 41 '
                   '(register/overwrite/unregister/subscribe/unsubscribe incl. handlers, names, arity 0-2 on either registry; '
                   'registry __bases__; interface __bases__ of required specs; classImplements/classImplementsOnly; '
                   'directlyProvides/alsoProvides/noLongerProvides on looked-up objects); after every mutation every entry point '
                   '(lookup, lookup1, lookupAll, names, subscriptions, handlers, queryAdapter, adapter_hook, queryMultiAdapter, '
                   'subscribers) for every key, from both registries',
            outside='histories longer than the bound; __bases__ changes of *provided* interfaces (documented TODO in adapter.py, '
                    'not in the property\'s mutation list)',
            oracle='a fresh universe that replays only the mutations and performs no earlier lookups'),
    Harness('e_history_verifying', make_e_history, kind='E', impls=('py', 'c'), tiers=_tiers('verifying'), encoded=_ENC,
            bounds='as e_history_adapter with VerifyingAdapterRegistry (generation checking)', oracle='as e_history_adapter'),
    Harness('e_partial_adapter', make_e_partial, kind='E', impls=('py', 'c'),
            tiers=dict(quick=dict(budget_s=100, parts=8, impls=('c',), params=dict(flavour='adapter', w1=3)),
                       thorough=dict(budget_s=300, parts=8, params=dict(flavour='adapter'))), encoded=_ENC,
            bounds='one multi-adapter registration/subscription (8) x optional single lookup of one spec (quick: 3 of 4 specs, C build; thorough: all, both builds) x one arity-2 '
                   'lookup/lookupAll/subscriptions (3 x 16 keys) x one mutation (13: declarations, interface __bases__, registration, '
                   'registry __bases__) x the same arity-2 call again; only the chosen lookups happen before the mutation',
            oracle='a fresh universe with the registration and the mutation and no earlier lookups'),
    Harness('e_partial_verifying', make_e_partial, kind='E', impls=('py', 'c'),
            tiers=dict(quick=dict(budget_s=100, parts=8, impls=('py',), params=dict(flavour='verifying', w1=3)),
                       thorough=dict(budget_s=300, parts=8, params=dict(flavour='verifying'))), encoded=_ENC,
            bounds='as e_partial_adapter for VerifyingAdapterRegistry', oracle='as e_partial_adapter'),
    Harness('e_during', make_e_during, kind='E', impls=('py', 'c'),
            tiers=dict(quick=dict(budget_s=30, parts=1), thorough=dict(budget_s=60, parts=1)), encoded=_ENC,
            bounds='both flavours x 6 entry points x 5 mutations made from inside the looked-up specification\'s subscribe() (the point at '
                   'which every lookup calls out into specification code) x caches empty / holding another key; both builds',
            outside='mutations from other call-out points of a lookup (C11 covers those for atomicity)',
            oracle='the interrupted call answers the before- or the after-value; the same call repeated answers what a registry without '
                   'earlier lookups answers'),
    Harness('s_cache_step', make_s_cache_step, kind='S', impls=('py',),
            tiers=dict(quick=dict(budget_s=90, parts=10, ppt=30, params=dict(keys=2)),
                       thorough=dict(budget_s=600, parts=10, ppt=60, params=dict(keys=2))),
            encoded=_ENC[:7],
            bounds='inductive step on the real LookupBaseFallback: arbitrary pre-state of <=2 cached entries per cache (symbolic key '
                   'identities that may alias the looked-up key, symbolic cached answers) satisfying Inv; one call among '
                   'lookup/lookup1/lookupAll/subscriptions/changed with symbolic key, name in {"","n"}, default given or not',
            outside='arity>1 keys at this tier; VerifyingBase generation snapshot (E tier)',
            oracle='uncached answer as an uninterpreted function of the key; Inv re-established',
            stubs=['_uncached_* overridden by an uninterpreted function of the key',
                   'key objects with symbolic identity and a constant hash (equal objects hash equal)']),
    Harness('s_verify_step', make_s_verify_step, kind='S', impls=('py',),
            tiers=dict(quick=dict(budget_s=60, parts=10, ppt=40, params={}),
                       thorough=dict(budget_s=300, parts=10, ppt=80, params={})),
            encoded=['zope.interface.adapter:VerifyingBase.changed', 'zope.interface.adapter:VerifyingBase._verify',
                     'zope.interface.adapter:VerifyingBase._getcache', 'zope.interface.adapter:VerifyingBase.lookupAll',
                     'zope.interface.adapter:VerifyingBase.subscriptions', 'zope.interface.adapter:LookupBaseFallback.lookup'],
            bounds='real Python VerifyingBase over a chain of 1..4 registries with arbitrary integer _generation counters before and after; '
                   'entry points lookup (arity 1 and 2), lookup1, lookupAll, subscriptions; name in {"","n"}; answers a1, a2 arbitrary integers',
            outside='chains longer than 4; the C VerifyingBase (Engine C ir_lookup and the E tiers)',
            oracle='contract: the uncached answer differs only if a generation in ro[1:] moved; repeated query == current uncached answer; '
                   'snapshot refreshed to ro[1:]',
            stubs=['registry chain = objects with symbolic _generation', '_uncached_* return the current symbolic answer']),
    Harness('e_snap', make_e_snap, kind='E', impls=('py', 'c'),
            tiers=dict(quick=dict(budget_s=60, parts=4, params={}), thorough=dict(budget_s=120, parts=4, params={})),
            encoded=['zope.interface.adapter:VerifyingBase.changed', 'zope.interface.adapter:VerifyingBase._verify',
                     'zope.interface._zope_interface_coptimizations:VerifyingBase'],
            bounds='chains of 2..4 VerifyingAdapterRegistry x the registry mutated (any behind the front one) x 5 mutations (register, '
                   'unregister, subscribe, unsubscribe, added base) x warm / cold; 8 entry points of the front registry',
            outside='chains longer than 4; several mutations between lookups (e_history_verifying)',
            oracle='a chain built afterwards with the same registrations and no earlier lookups'),
]

for _k in HARNESSES:
    if _k.name in ('s_cache_step', 's_verify_step'):
        _k.stub_kernel = True      # drives private functions / extension points with stub containers (see vlib.runner)

MANIFEST = {
    'engine': 'symx',
    'technique': 'symbolic execution (CrossHair engine + z3): inductive one-step check of the real LookupBase cache layer from an arbitrary '
                 'symbolic cache state + solver-enumerated mutation histories on real registries, warm vs cold differential, both flavours, both builds',
    'text': 'Kernel: from every cache state satisfying the invariant (within the size bound) one lookup-family call answers as the uncached '
            'function does now and re-establishes the invariant, which covers lookup/mutation histories of any length at the cache layer. '
            'End to end: every mutation history up to the bound, with all caches warmed before each step, is compared with a registry that '
            'never looked anything up.',
    'note': 'Trusted: cold registries answer correctly (C04/C07 decide that); alphabet and length bounds in evidence.',
}
