"""C02 extends/isOrExtends equal reachability over current bases, after any rebasing.

E tier: a fixed mixed specification graph (interfaces, class declarations of real classes, an
instance declaration of a real object, plain Declarations) is re-based by every history up to
the bound of `S.__bases__ = (...)` assignments at any node; after every step every ordered
pair is queried and compared with reachability over the *current* bases, and every `__sro__` /
`__iro__` is compared, as a sequence, with a freshly built graph of the same shape.
"""
import itertools

from vlib.harness import Harness
from vlib.symx import Violation, assume, native, pick, reached

# node indices (rank order: new bases are always lower-ranked nodes => acyclic)
OBJ, I0, I1, I2, I3, IM, IK0, IK1, D0, D1, P, IX, I4 = range(13)
NAMES = ['implementedBy(object)', 'I0', 'I1', 'I2', 'I3', 'implementedBy(M)', 'implementedBy(K0)',
         'implementedBy(K1)', 'D0', 'D1', 'providedBy(ob)', 'IX', 'I4']
NN = len(NAMES)
IFACES = (I0, I1, I2, I3, IX, I4)

# candidate bases per re-basable node
CAND = {
    I0: [IX],
    I4: [I1, I0, I2],          # initially (I1, I0): a base that another base already extends
    I1: [I0],
    I2: [I0, I1],
    I3: [I0, I1, I2],
    IM: [OBJ, I0, I2],
    IK0: [OBJ, I1, I3, IM],
    IK1: [IK0, I2, IM, OBJ],
    D0: [I2, I3, IK0, IM],
    D1: [I1, D0, IK1, I3],
    P: [I2, IK1, D1, I0],
}
CAND_SMALL = {
    I0: [IX],
    I1: [I0],
    I2: [I0, I1],
    I3: [I1, I2],
    IM: [OBJ, I2],
    IK0: [OBJ, I1, IM],
    IK1: [IK0, IM],
    D0: [I2, IK0],
    D1: [D0, IK1],
    P: [I2, IK1, D1],
}


def alphabet(cand, maxb=2):
    ops = []
    for node in sorted(cand):
        for k in range(0, maxb + 1):
            for combo in itertools.permutations(cand[node], k):
                ops.append((node, combo))
    ops.append((SQ, ()))
    return ops


SQ = -1      # not a re-basing: an earlier query through super() on the instance (fills the class specifications' super caches)


class Graph:
    """The real objects."""

    def __init__(self, fresh_bases=None):
        from zope.interface import Interface, implementer, directlyProvides, implementedBy, providedBy
        from zope.interface.declarations import Declaration, Implements
        from zope.interface.interface import InterfaceClass
        from vlib import universe as U
        self.Interface = Interface
        mod = U.fresh_module_name()
        nodes = [None] * NN
        nodes[OBJ] = implementedBy(object)
        if fresh_bases is None:
            ix = InterfaceClass('IX', (Interface,), __module__=mod)
            i0 = InterfaceClass('I0', (ix,), __module__=mod)
            i1 = InterfaceClass('I1', (i0,), __module__=mod)
            i2 = InterfaceClass('I2', (i0,), __module__=mod)
            i3 = InterfaceClass('I3', (i1, i2), __module__=mod)
            i4 = InterfaceClass('I4', (i1, i0), __module__=mod)
            M = type('M', (object,), {})
            K0 = implementer(i1)(type('K0', (object,), {}))
            K1 = type('K1', (K0,), {})
            ob = K1()
            directlyProvides(ob, i2)
            d0 = Declaration(i2)
            d1 = Declaration(i1)
            d1.__bases__ = (i1, d0)
            self.keep = (M, K0, K1, ob)
            self.ob = ob
            nodes[I0], nodes[I1], nodes[I2], nodes[I3] = i0, i1, i2, i3
            nodes[IX], nodes[I4] = ix, i4
            nodes[IM], nodes[IK0], nodes[IK1] = implementedBy(M), implementedBy(K0), implementedBy(K1)
            nodes[D0], nodes[D1], nodes[P] = d0, d1, providedBy(ob)
            self.nodes = nodes
            self.bases = {n: tuple(self.index(b) for b in nodes[n].__bases__) for n in range(NN)}
            # Interface as an explicit base is represented by the empty tuple
            for n in range(NN):
                self.bases[n] = tuple(b for b in self.bases[n] if b != 'ROOT')
        else:
            # a freshly built graph of the given shape: every node gets its final bases exactly once, bottom-up
            for n in IFACES:
                nodes[n] = InterfaceClass(NAMES[n], (Interface,), __module__=mod)
            for n in (IM, IK0, IK1):
                nodes[n] = Implements.named('fresh%d' % n)
            for n in (D0, D1, P):
                nodes[n] = Declaration()
            self.nodes = nodes
            self.bases = dict(fresh_bases)
            for n in range(1, NN):
                bs = tuple(nodes[b] for b in fresh_bases[n])
                if n in IFACES and not bs:
                    bs = (Interface,)
                nodes[n].__bases__ = bs

    def index(self, spec):
        if spec is self.Interface:
            return 'ROOT'
        for k, n in enumerate(self.nodes):
            if n is spec:
                return k
        return 'FOREIGN:%r' % (spec,)

    def rebase(self, node, bases):
        if node == SQ:
            from zope.interface import providedBy
            M, K0, K1, ob = self.keep
            for C in (K1, K0):
                list(providedBy(super(C, ob)).flattened())
            return
        bs = tuple(self.nodes[b] for b in bases)
        if node in IFACES and not bs:
            bs = (self.Interface,)
        # mirror first: __bases__ is stored before changed() runs, so an assignment made from inside a changed() callback is the later one
        self.bases[node] = tuple(bases)
        self.nodes[node].__bases__ = bs


def reach(bases, s):
    seen = set()
    stack = [s]
    while stack:
        x = stack.pop()
        if x in seen:
            continue
        seen.add(x)
        stack.extend(bases[x])
    return seen


def fmt(ops):
    return '; '.join('providedBy(super(K1, ob)), providedBy(super(K0, ob))' if n == SQ else
                     '%s.__bases__ = (%s)' % (NAMES[n], ', '.join(NAMES[b] for b in bs) + (',' if len(bs) == 1 else ''))
                     for n, bs in ops)


def check(g, hist):
    Interface = g.Interface
    for s in range(NN):
        S = g.nodes[s]
        r = reach(g.bases, s)
        sro = [g.index(x) for x in S.__sro__]
        if sro[0] != s or set(sro) != r | {'ROOT'} or len(set(sro)) != len(sro):
            raise Violation('history [%s]: %s.__sro__ is %s, reachable over the current __bases__: %s (+ Interface)' % (
                fmt(hist), NAMES[s], _nm(sro), _nm(sorted(r))), signature='C02:sro-set')
        if sro[-1] != 'ROOT':
            raise Violation('history [%s]: %s.__sro__ %s does not end with Interface' % (fmt(hist), NAMES[s], _nm(sro)), signature='C02:sro-root-last')
        pos = {x: k for k, x in enumerate(sro)}
        for x in sro[:-1]:
            for b in g.bases[x]:
                if pos[b] < pos[x]:
                    raise Violation('history [%s]: %s.__sro__ %s lists %s before %s, which has it as a base' % (
                        fmt(hist), NAMES[s], _nm(sro), NAMES[b], NAMES[x]), signature='C02:sro-base-before-spec')
        iro = [g.index(x) for x in S.__iro__]
        if iro != [x for x in sro if x == 'ROOT' or x in IFACES]:
            raise Violation('history [%s]: %s.__iro__ %s is not __sro__ %s restricted to interfaces' % (
                fmt(hist), NAMES[s], _nm(iro), _nm(sro)), signature='C02:iro')
        for t in range(NN):
            T = g.nodes[t]
            exp = t in r
            got = bool(S.isOrExtends(T))
            if got != exp:
                raise Violation('history [%s]: %s.isOrExtends(%s) is %s, reachability over the current __bases__ says %s' % (
                    fmt(hist), NAMES[s], NAMES[t], got, exp), signature='C02:isOrExtends')
            got_s = bool(S.extends(T))
            got_ns = bool(S.extends(T, False))
            # strict: "the same without the strict self case" (self case decided by ==, identity for declarations)
            if got_ns != exp or got_s != (exp and s != t):
                raise Violation('history [%s]: %s.extends(%s) strict=%s non-strict=%s, reachability says %s' % (
                    fmt(hist), NAMES[s], NAMES[t], got_s, got_ns, exp), signature='C02:extends')
        if not S.isOrExtends(Interface) or not S.extends(Interface):
            raise Violation('history [%s]: %s does not extend the root Interface' % (fmt(hist), NAMES[s]), signature='C02:root')
    # the instance declaration is what providedBy consults
    if hasattr(g, 'ob'):
        from zope.interface import providedBy
        if providedBy(g.ob) is not g.nodes[P]:
            raise Violation('harness: providedBy(ob) changed identity', signature='C02:harness')
        for i in IFACES:
            exp = i in reach(g.bases, P)
            if bool(g.nodes[i].providedBy(g.ob)) != exp:
                raise Violation('history [%s]: %s.providedBy(ob) is %s, reachability from providedBy(ob) says %s' % (
                    fmt(hist), NAMES[i], not exp, exp), signature='C02:providedBy')


def _nm(seq):
    return '[' + ', '.join(x if isinstance(x, str) else NAMES[x] for x in seq) + ']'


def run_history(ops):
    g = Graph()
    check(g, ())
    for k, (node, bases) in enumerate(ops):
        g.rebase(node, bases)
        hist = ops[:k + 1]
        check(g, hist)
        f = Graph(fresh_bases=g.bases)
        for s in range(NN):
            a = [g.index(x) for x in g.nodes[s].__sro__]
            b = [f.index(x) for x in f.nodes[s].__sro__]
            if a != b:
                raise Violation('history [%s]: %s.__sro__ is %s; a freshly built graph of the same shape gives %s' % (
                    fmt(hist), NAMES[s], _nm(a), _nm(b)), signature='C02:history-dependent-sro')


def make_e(params, part, nparts):
    alpha = alphabet(CAND_SMALL if params.get('small') else CAND, params.get('maxb', 2))
    NA = len(alpha)
    L = params['L']

    def h(n: int, o1: int, o2: int, o3: int, o4: int):
        c1 = pick(o1, NA)
        assume(c1 % nparts == part)
        ln = pick(n, L) + 1
        idx = [c1] + [pick(o, NA) for o in (o2, o3, o4)[:ln - 1]]
        ops = tuple(alpha[i] for i in idx)
        reached(tuple(idx), dict(history=fmt(ops)))
        native(run_history, ops)
    return h


# ---------------------------------------------------------------------------------------------------------------
# e_twins: two distinct interface objects with the same (__name__, __module__) -- they compare and hash equal --
# in one graph (a module that is reloaded, a class statement that runs twice).  Identity is what `__bases__`
# relates, so every `__sro__` is compared *by identity* with reachability and with a freshly built graph.
T_IO, T_IB, T_TA, T_TB, T_IS, T_ISA, T_ISB, T_K, T_D, T_P = range(10)
T_NAMES = ['IO', 'IB', 'IT#a', 'IT#b', 'IS', 'ISa', 'ISb', 'implementedBy(K)', 'D', 'providedBy(ob)']
T_REAL = ['IO', 'IB', 'IT', 'IT', 'IS', 'ISa', 'ISb', None, None, None]
T_N = len(T_NAMES)
T_IFACES = tuple(range(7))
T_TWIN = {T_TA: T_TB, T_TB: T_TA}
T_INIT = {T_IO: (), T_IB: (), T_TA: (T_IB,), T_TB: (T_IB,), T_IS: (T_TA,), T_ISA: (T_TA,), T_ISB: (T_TB,),
          T_K: (T_IS,), T_D: (T_IS,), T_P: (T_ISA, T_K)}
T_OPS = ([(T_IB, b) for b in [(), (T_IO,)]] +
         [(t, b) for t in (T_TA, T_TB) for b in [(), (T_IB,), (T_IO,), (T_IB, T_IO), (T_IO, T_IB)]] +
         [(T_IS, b) for b in [(T_TA,), (T_TB,), (T_TA, T_IO), (T_TB, T_IB)]] +
         [(T_ISA, b) for b in [(T_TA,), (T_TB,), (T_IS,)]] +
         [(T_K, b) for b in [(T_IS,), (T_ISA,), (T_TB,)]] +
         [(T_D, b) for b in [(T_IS,), (T_ISB,), (T_TB, T_IO)]])


class TwinGraph:
    def __init__(self, fresh_bases=None):
        from zope.interface import Interface, implementer, directlyProvides, implementedBy, providedBy
        from zope.interface.declarations import Declaration, Implements
        from zope.interface.interface import InterfaceClass
        from vlib import universe as U
        self.Interface = Interface
        mod = U.fresh_module_name()
        nodes = [None] * T_N
        for n in T_IFACES:
            nodes[n] = InterfaceClass(T_REAL[n], (Interface,), __module__=mod)
        if fresh_bases is None:
            for n in T_IFACES:
                if T_INIT[n]:
                    nodes[n].__bases__ = tuple(nodes[b] for b in T_INIT[n])
            K = implementer(nodes[T_IS])(type('K', (object,), {}))
            ob = K()
            directlyProvides(ob, nodes[T_ISA])
            self.keep = (K, ob)
            nodes[T_K] = implementedBy(K)
            nodes[T_K].__bases__ = (nodes[T_IS],)       # without implementedBy(object): keeps the mirror simple
            nodes[T_D] = Declaration(nodes[T_IS])
            nodes[T_P] = providedBy(ob)
            self.nodes = nodes
            self.bases = dict(T_INIT)
        else:
            nodes[T_K] = Implements.named('freshK')
            nodes[T_D] = Declaration()
            nodes[T_P] = Declaration()
            self.nodes = nodes
            self.bases = dict(fresh_bases)
            for n in range(T_N):
                bs = tuple(nodes[b] for b in fresh_bases[n])
                if n in T_IFACES and not bs:
                    bs = (Interface,)
                nodes[n].__bases__ = bs

    def index(self, spec):
        if spec is self.Interface:
            return 'ROOT'
        for k, n in enumerate(self.nodes):
            if n is spec:
                return k
        return 'FOREIGN:%r' % (spec,)

    def rebase(self, node, bases):
        bs = tuple(self.nodes[b] for b in bases)
        if node in T_IFACES and not bs:
            bs = (self.Interface,)
        self.nodes[node].__bases__ = bs
        self.bases[node] = tuple(bases)


def _tnm(seq):
    return '[' + ', '.join(x if isinstance(x, str) else T_NAMES[x] for x in seq) + ']'


def t_fmt(ops):
    return '; '.join('%s.__bases__ = (%s)' % (T_NAMES[n], ', '.join(T_NAMES[b] for b in bs) + (',' if len(bs) == 1 else ''))
                     for n, bs in ops)


def t_check(g, hist, skip=()):
    f = TwinGraph(fresh_bases=g.bases)
    for s in range(T_N):
        if s in skip:
            continue
        S = g.nodes[s]
        r = reach(g.bases, s)
        sro = [g.index(x) for x in S.__sro__]
        if sro[0] != s or set(sro) != r | {'ROOT'} or len(set(sro)) != len(sro):
            raise Violation('history [%s] (IT#a and IT#b are distinct interfaces of the same name and module): %s.__sro__ holds, by identity, %s; '
                            'reachable over the current __bases__: %s (+ Interface)' % (t_fmt(hist), T_NAMES[s], _tnm(sro), _tnm(sorted(r))),
                            signature='C02:twins:sro-set')
        fs = [f.index(x) for x in f.nodes[s].__sro__]
        if sro != fs:
            raise Violation('history [%s] (IT#a/IT#b: same name, distinct objects): %s.__sro__ is %s; a freshly built graph of the same shape gives %s' % (
                t_fmt(hist), T_NAMES[s], _tnm(sro), _tnm(fs)), signature='C02:twins:history-dependent-sro')
        if [g.index(x) for x in S.__bases__] != [b for b in g.bases[s]] and not (s in T_IFACES and not g.bases[s]):
            raise Violation('history [%s]: %s.__bases__ holds %s after being assigned %s' % (
                t_fmt(hist), T_NAMES[s], _tnm([g.index(x) for x in S.__bases__]), _tnm(g.bases[s])), signature='C02:twins:bases')
        for t in range(T_N):
            exp = t in r or (t in T_TWIN and T_TWIN[t] in r)     # an interface *is* its equal-named twin for isOrExtends (C12 equality)
            got = bool(S.isOrExtends(g.nodes[t]))
            if got != exp:
                raise Violation('history [%s] (IT#a/IT#b: same name, distinct objects): %s.isOrExtends(%s) is %s, reachability over the current '
                                '__bases__ says %s' % (t_fmt(hist), T_NAMES[s], T_NAMES[t], got, exp), signature='C02:twins:isOrExtends')
    for i in T_IFACES:
        if T_P in skip:
            break
        r = reach(g.bases, T_P)
        exp = i in r or (i in T_TWIN and T_TWIN[i] in r)
        if bool(g.nodes[i].providedBy(g.keep[1])) != exp:
            raise Violation('history [%s]: %s.providedBy(ob) is %s, reachability from providedBy(ob) says %s' % (
                t_fmt(hist), T_NAMES[i], not exp, exp), signature='C02:twins:providedBy')


def run_twin_history(ops, broad_skip=False):
    g = TwinGraph()
    t_check(g, ())
    for k, (node, bases) in enumerate(ops):
        g.rebase(node, bases)
        # outside the claim: a specification that has both twins among its *direct* bases (the per-base table of the merge is keyed
        # by equality); one that merely reaches both through different branches is checked like any other
        # Histories of three steps reach shapes in which the C3 merge itself (membership tests by equality) drops one of two twins
        # that a specification reaches through different branches - a limitation of the unchanged code that no re-basing history causes;
        # there (broad_skip, thorough tier) every specification reaching both twins is left out.  At <= 2 steps no history of the
        # alphabet reaches such a shape, so the quick tier checks those specifications as well.
        skip = set()
        for s in range(T_N):
            r = reach(g.bases, s)
            if (T_TA in g.bases[s] and T_TB in g.bases[s]) or (broad_skip and T_TA in r and T_TB in r):
                skip.add(s)
        t_check(g, ops[:k + 1], skip)


def make_e_twins(params, part, nparts):
    NA = len(T_OPS)
    L = params['L']

    def h(n: int, o1: int, o2: int, o3: int):
        c1 = pick(o1, NA)
        assume(c1 % nparts == part)
        ln = pick(n, L) + 1
        idx = [c1] + [pick(o, NA) for o in (o2, o3)[:ln - 1]]
        ops = tuple(T_OPS[i] for i in idx)
        reached(tuple(idx), dict(history=t_fmt(ops)))
        native(run_twin_history, ops, bool(params.get('broad_skip')))
    return h


# ---------------------------------------------------------------------------------------------------------------
# e_reentrant: a dependent registered through the public subscribe() protocol (the one adapter registries use) re-bases a
# node from inside its changed() callback, i.e. while the changed() of the outer assignment is still on the stack.
class _Dep:
    def __init__(self, g, node, bases):
        self.g, self.node, self.bases, self.fired = g, node, bases, False

    def changed(self, originally_changed):
        if not self.fired:
            self.fired = True
            self.g.rebase(self.node, self.bases)


def run_reentrant(outer, watch, inner):
    g = Graph()
    dep = _Dep(g, inner[0], inner[1])
    g.nodes[watch].subscribe(dep)
    g.rebase(outer[0], outer[1])
    g.nodes[watch].unsubscribe(dep)
    hist = (outer,) + ((inner,) if dep.fired else ())
    what = '%s.__bases__ assignment during which a dependent subscribed to %s %s' % (
        NAMES[outer[0]], NAMES[watch], ('re-based ' + fmt((inner,)) + ' from its changed() callback') if dep.fired else 'was not notified')
    try:
        check(g, hist)
    except Violation as v:
        raise Violation('%s: %s' % (what, v.msg if hasattr(v, 'msg') else v), signature='C02:reentrant')
    f = Graph(fresh_bases=g.bases)
    for s in range(NN):
        a = [g.index(x) for x in g.nodes[s].__sro__]
        b = [f.index(x) for x in f.nodes[s].__sro__]
        if a != b:
            raise Violation('%s: %s.__sro__ is %s; a freshly built graph of the final shape gives %s' % (what, NAMES[s], _nm(a), _nm(b)),
                            signature='C02:reentrant')
    return dep.fired


def make_e_reentrant(params, part, nparts):
    alpha = alphabet(CAND_SMALL, 2)
    alpha_in = alphabet(CAND_SMALL, params.get('inner_maxb', 2))
    NA, NI = len(alpha), len(alpha_in)

    def h(o1: int, w: int, o2: int):
        c1 = pick(o1, NA)
        assume(c1 % nparts == part)
        outer, watch, inner = alpha[c1], pick(w, NN - 1) + 1, alpha_in[pick(o2, NI)]
        reached((c1, watch, inner), dict(outer=fmt((outer,)), watch=NAMES[watch], inner=fmt((inner,))))
        native(run_reentrant, outer, watch, inner)
    return h


_ENC = ['zope.interface.interface:Specification.changed', 'zope.interface.interface:Specification._calculate_sro',
        'zope.interface.interface:Specification.subscribe', 'zope.interface.interface:Specification.unsubscribe',
        'zope.interface.interface:Specification.extends', 'zope.interface.interface:SpecificationBasePy.isOrExtends',
        'zope.interface.interface:SpecificationBasePy.providedBy',
        'zope.interface.declarations:Implements.changed', 'zope.interface.ro:ro',
        'zope.interface._zope_interface_coptimizations:SpecificationBase']

_B = ('graph of 13 specifications: implementedBy(object) (fixed), interfaces IX, I0(IX), I1(I0), I2(I0), I3(I1,I2), I4(I1,I0) (a base that another base already extends), class declarations of M '
      '(declares nothing), K0 (@implementer(I1)), K1(K0), plain declarations D0=(I2), D1=(I1, D0), providedBy(ob) for ob=K1() with '
      'directlyProvides(ob, I2); ')

HARNESSES = [
    Harness('e_rebase', make_e, kind='E', impls=('py', 'c'),
            tiers=dict(quick=dict(budget_s=150, parts=16, params=dict(L=2)),
                       thorough=dict(budget_s=3000, parts=16, params=dict(L=3, small=True))),
            encoded=_ENC,
            bounds=_B + 'quick: every history of <=2 assignments from 122 (each of 11 nodes := ordered subset, size <=2, of up to 4 lower-ranked '
                        'candidates); thorough: every history of <=3 assignments from a 36-op alphabet; all 169 ordered pairs queried after every step',
            outside='cyclic __bases__; more than 2 bases per assignment; graphs beyond the 11 nodes; histories longer than the bound',
            oracle='reachability over the harness\'s mirror of the current __bases__ (+ root); sequence equality of __sro__/__iro__ with a freshly '
                   'built graph of the same shape'),
    Harness('e_rebase_wide', make_e, kind='E', impls=('py', 'c'),
            tiers=dict(quick=dict(budget_s=60, parts=16, params=dict(L=1, maxb=3)),
                       thorough=dict(budget_s=3000, parts=16, params=dict(L=2, maxb=3), impls=('py',))),
            encoded=_ENC,
            bounds=_B + 'assignments of ordered subsets of size <=3; quick L=1, thorough L<=2 (pure-Python build)',
            oracle='as e_rebase'),
    Harness('e_reentrant', make_e_reentrant, kind='E', impls=('py', 'c'),
            tiers=dict(quick=dict(budget_s=150, parts=16, params=dict(inner_maxb=1)), thorough=dict(budget_s=900, parts=16, params={})),
            encoded=_ENC,
            bounds=_B + 'one assignment from the small alphabet (<=2 bases) x a dependent (public subscribe() protocol) attached to any of the 12 re-basable or '
                        'derived nodes x one assignment (quick: <=1 base, thorough: <=2) performed from inside the dependent\'s changed() callback, while '
                        'the outer changed() is still running; all 169 ordered pairs and every __sro__ afterwards',
            outside='more than one re-entrant assignment; callbacks that raise',
            oracle='reachability over the final __bases__ and a freshly built graph of the final shape'),
    Harness('e_twins', make_e_twins, kind='E', impls=('py', 'c'),
            tiers=dict(quick=dict(budget_s=90, parts=8, params=dict(L=2)),
                       thorough=dict(budget_s=1500, parts=16, params=dict(L=3, broad_skip=True))),
            encoded=_ENC,
            bounds='graph of 10 specifications with two distinct interface objects of the same __name__ and __module__ (IT#a, IT#b; both based on IB), '
                   'sub-interfaces IS, ISa, ISb, a class declaration, a plain Declaration and an instance declaration below them; every history of <=2 '
                   '(thorough <=3) assignments from a 25-op alphabet, including re-basing a dependent from one twin to the other',
            outside='a specification that reaches both twins at once (history cut at that step)',
            oracle='identity-indexed __sro__ == reachability set and == freshly built graph; isOrExtends by reachability up to interface equality'),
]

ASSUMPTIONS = ['__bases__ graphs are acyclic (new bases are always lower-ranked nodes)']

MANIFEST = {
    'engine': 'symx',
    'technique': 'symbolic execution (CrossHair engine + z3) over solver-enumerated __bases__-reassignment histories on a real mixed '
                 'specification graph (interfaces, class/instance declarations, plain Declarations), both builds; oracle: reachability + fresh graph',
    'text': 'Bounded-exhaustive: every history of __bases__ reassignments up to the length bound at any node of an 11-node mixed '
            'specification graph; after every step all ordered pairs are compared with reachability over the current bases and every '
            'resolution order with a freshly built graph. The implied-set cache is rebuilt through weak dependents, so staleness depends '
            'on graph shape and mutation order, which the enumeration covers within the bound.',
    'note': 'Trusted: 10-line reachability oracle; acyclic graphs only.',
}
