"""C11 Lookups stay memory-safe and atomic when other code mutates the registry.

Tiers:
  e_reent  - every (flavour, entry point, callback point, mutation, cache temperature) scenario is executed on both
             builds in sibling processes (a crash of the process is a result, not a harness failure): the interrupted
             lookup must answer as before or as after the mutation, the repeated lookup as after, none of the fresh
             dictionaries allocated by the callback may have been written to (CPython recycles a just-released
             dict, so a write through a dangling cache pointer lands there), and reference counts must not grow.
  s_py_atomic - the real pure-Python LookupBase cache layer with an overridden uncached lookup that, under symbolic
             control, calls changed() before/after computing: no answer computed before the mutation survives.
Under the GIL another thread can only run where Python code runs, i.e. at exactly these callback points, so the
scenarios also stand for every GIL schedule of one mutator against a lookup (free-threaded builds: outside).
"""
import json

from vlib.harness import Harness
from vlib.symx import Violation, assume, native, pick, reached
from vlib import traceprog as TP
from props import C10

_SIBS = {}


def _sib(impl):
    import atexit
    import os
    import subprocess
    import sys
    p = _SIBS.get(impl)
    if p is not None and p.poll() is None:
        return p
    root = os.path.dirname(os.path.dirname(os.path.abspath(__file__)))
    env = dict(os.environ)
    env['PYTHONPATH'] = root
    env.pop('PURE_PYTHON', None)
    p = subprocess.Popen([sys.executable, '-X', 'faulthandler', '-m', 'vlib.traceserver', impl], cwd=root, env=env,
                         stdin=subprocess.PIPE, stdout=subprocess.PIPE, stderr=subprocess.DEVNULL, text=True, bufsize=1)
    if 'ready' not in p.stdout.readline():
        raise RuntimeError('trace server did not start')
    _SIBS[impl] = p
    atexit.register(lambda: (p.stdin.close(), p.terminate()))
    return p


def describe(prog):
    return '%s, %s interrupted at %s by %s (%s caches)' % (
        ['AdapterRegistry', 'VerifyingAdapterRegistry'][prog[0]], TP.RE_ENTRY[prog[1]], TP.RE_POINT[prog[2]], TP.RE_MUT[prog[3]],
        TP.RE_WARM[prog[4]])


def scenario(impl, prog):
    p = _sib(impl)
    try:
        p.stdin.write(json.dumps(dict(family='reent', program=prog)) + '\n')
        p.stdin.flush()
        line = p.stdout.readline()
    except (BrokenPipeError, OSError):
        line = ''
    if not line:
        rc = p.poll()
        _SIBS.pop(impl, None)
        raise Violation('%s build: %s: the interpreter died (exit status %s) - memory corruption' % (impl, describe(prog), rc),
                        signature='C11:crash:%s' % TP.RE_POINT[prog[2]])
    r = json.loads(line)
    if 'error' in r:
        raise Violation('%s build: %s: %s' % (impl, describe(prog), r['error']), signature='C11:harness')
    r = r['trace']
    if r is None:
        return False
    what = '%s build: %s' % (impl, describe(prog))
    if r['witness_dirty']:
        raise Violation('%s: a dictionary allocated by the interrupting code after the caches were released was written to: %s '
                        '(store through a dangling cache pointer)' % (what, r['witness_dirty'][:2]),
                        signature='C11:write-through-dangling-cache:%s' % TP.RE_POINT[prog[2]])
    if r['exception'] is not None:
        raise Violation('%s: the lookup raised %s' % (what, r['exception']), signature='C11:exception:%s' % TP.RE_POINT[prog[2]])
    if r['result'] != r['before'] and r['result'] != r['after']:
        raise Violation('%s: answered %r, which is correct neither before (%r) nor after (%r) the mutation' % (
            what, r['result'], r['before'], r['after']), signature='C11:not-atomic')
    if r['second'] != r['after']:
        raise Violation('%s: the same lookup repeated afterwards answers %r, a registry in the mutated state answers %r: an answer '
                        'computed before the mutation survived in the cache' % (what, r['second'], r['after']),
                        signature='C11:stale-answer-survives:%s' % TP.RE_ENTRY[prog[1]])
    if r['refcount_growth'] >= 5:
        raise Violation('%s: reference counts of the operands grew by %d over 20 repetitions (leak)' % (what, r['refcount_growth']),
                        signature='C11:reference-leak:%s' % TP.RE_POINT[prog[2]])
    return True


def both(prog):
    a = scenario('py', prog)
    b = scenario('c', prog)
    return a or b


def make_e_reent(params, part, nparts):
    NE, NP, NM, NW = len(TP.RE_ENTRY), len(TP.RE_POINT), len(TP.RE_MUT), len(TP.RE_WARM)

    def h(fl: int, e: int, p: int, m: int, w: int):
        ce, cp = pick(e, NE), pick(p, NP)
        assume((ce * NP + cp) % nparts == part)
        prog = [pick(fl, 2), ce, cp, pick(m, NM), pick(w, NW)]
        ok = native(both, prog)
        assume(ok)
        reached(tuple(prog), dict(scenario=describe(prog)))
    return h


# ---------------------------------------------------------------------------
# S tier: the pure-Python cache layer under symbolic re-entrancy
# ---------------------------------------------------------------------------

def make_s_py_atomic(params, part, nparts):
    from zope.interface.adapter import LookupBaseFallback

    class KeyObj:
        __slots__ = ('k',)

        def __init__(self, k):
            self.k = k

        def __eq__(self, other):
            return isinstance(other, KeyObj) and self.k == other.k

        def __hash__(self):
            return 0

    def h(op: int, k_req: int, k_prov: int, named: int, mutate_before: bool, mutate_after: bool, reenter: bool,
          b0: int, b1: int, b2: int, b3: int, a0: int, a1: int, a2: int, a3: int, c_req: int, c_prov: int, precached: bool):
        c_op = pick(op, 4)
        assume(c_op % nparts == part)
        kr, kp, nm = pick(k_req, 2), pick(k_prov, 2), pick(named, 2)
        B, A = (b0, b1, b2, b3), (a0, a1, a2, a3)           # uncached answers before / after the mutation, per key
        epoch = [0]

        def truth(r, p):
            v = (A if epoch[0] else B)[r * 2 + p]
            return None if v == 0 else ('ans', v)

        class LB(LookupBaseFallback):
            def _answer(self, required, provided):
                if mutate_before and not epoch[0]:
                    epoch[0] = 1
                    self.changed(None)
                    if reenter:                                  # the interrupting code looks the same key up itself
                        self.lookup((KeyObj(kr),), KeyObj(kp), 'n' if nm else '')
                r = truth(required[0].k, provided.k)
                if mutate_after and not epoch[0]:
                    epoch[0] = 1
                    self.changed(None)
                return r

            def _uncached_lookup(self, required, provided, name=''):
                return self._answer(required, provided)

            def _uncached_lookupAll(self, required, provided):
                return ('all', self._answer(required, provided))

            def _uncached_subscriptions(self, required, provided):
                return ('subs', self._answer(required, provided))
        lb = LB()
        cr, cp = pick(c_req, 2), pick(c_prov, 2)
        if precached:      # an unrelated (or the same) key cached in the pre-state, consistent with the pre-mutation truth
            lb._getcache(KeyObj(cp), 'n' if nm else '')[KeyObj(cr)] = truth(cr, cp)
            lb._mcache.setdefault(KeyObj(cp), {})[(KeyObj(cr),)] = ('all', truth(cr, cp))
            lb._scache.setdefault(KeyObj(cp), {})[(KeyObj(cr),)] = ('subs', truth(cr, cp))
        req, prov, name = KeyObj(kr), KeyObj(kp), ('n' if nm else '')
        reached(None, dict(op=c_op, key=(kr, kp, nm), mutate_before=mutate_before, mutate_after=mutate_after))
        before = (B[kr * 2 + kp], A[kr * 2 + kp])
        if c_op == 0:
            got = lb.lookup((req,), prov, name)
            wrap = lambda v: None if v == 0 else ('ans', v)
        elif c_op == 1:
            got = lb.lookup1(req, prov, name)
            wrap = lambda v: None if v == 0 else ('ans', v)
        elif c_op == 2:
            got = lb.lookupAll((req,), prov)
            wrap = lambda v: ('all', None if v == 0 else ('ans', v))
        else:
            got = lb.subscriptions((req,), prov)
            wrap = lambda v: ('subs', None if v == 0 else ('ans', v))
        if got != wrap(before[0]) and got != wrap(before[1]):
            raise Violation('interrupted call answered %r: neither the pre- nor the post-mutation answer' % (got,), signature='C11:py:not-atomic')
        # nothing computed before the mutation survives: every cached entry equals the *current* truth
        for pk, sub in list(lb._cache.items()):
            for k2, v2 in list(sub.items()):
                if isinstance(k2, str):
                    for k3, v3 in list(v2.items()):
                        if v3 != truth(k3.k, pk.k):
                            raise Violation('stale named cache entry survives the mutation', signature='C11:py:stale')
                elif v2 != truth(k2.k, pk.k):
                    raise Violation('stale cache entry survives the mutation', signature='C11:py:stale')
        for cache, tag in ((lb._mcache, 'all'), (lb._scache, 'subs')):
            for pk, sub in list(cache.items()):
                for k2, v2 in list(sub.items()):
                    if v2 != (tag, truth(k2[0].k, pk.k)):
                        raise Violation('stale %s cache entry survives the mutation' % tag, signature='C11:py:stale')
    return h


_ENC = ['zope.interface._zope_interface_coptimizations:LookupBase', 'zope.interface._zope_interface_coptimizations:VerifyingBase',
        'zope.interface.adapter:LookupBaseFallback.lookup', 'zope.interface.adapter:LookupBaseFallback.lookup1',
        'zope.interface.adapter:LookupBaseFallback.adapter_hook', 'zope.interface.adapter:LookupBaseFallback.lookupAll',
        'zope.interface.adapter:LookupBaseFallback.subscriptions', 'zope.interface.adapter:LookupBaseFallback.changed',
        'zope.interface.adapter:VerifyingBaseFallback._verify', 'zope.interface.adapter:VerifyingBaseFallback.changed',
        'zope.interface.adapter:AdapterLookupBase._uncached_lookup', 'zope.interface.adapter:BaseAdapterRegistry.changed']

HARNESSES = [
    Harness('e_reent', make_e_reent, kind='E', impls=('py',),
            tiers=dict(quick=dict(budget_s=200, parts=16, params={}), thorough=dict(budget_s=1200, parts=16, params={})),
            encoded=_ENC,
            bounds='2 registry flavours x 9 entry points (lookup, lookup1, queryAdapter, adapter_hook, lookupAll, names, subscriptions, '
                   'queryMultiAdapter, subscribers) x 10 callback points (overridden _uncached_* before / after computing, lazy `required` '
                   'sequence, __providedBy__ descriptor, factory, __hash__ of the provided key, __hash__ of a str-subclass name, __eq__ of a '
                   'required key, destructor of a cached value run while the caches are released, unhashable-provided error path) x 6 '
                   'mutations (more specific registration, unregistration, subscription, changed() alone, registry __bases__, registration + '
                   're-entrant lookup) x 3 cache temperatures; both builds, each in its own process',
            outside='free-threaded (no-GIL) builds; allocation failure; more than one interruption per call; crashes inside CPython itself',
            oracle='answer in {before, after} from uninterrupted twin registries; repeated call == after; no write into the dictionaries '
                   'allocated after the caches were released; refcount growth < 5 over 20 repetitions; process survives',
            stubs=['sibling processes for both builds', 'hooked LookupClass / lazy sequence / descriptor / factory / key objects as callback carriers']),
    Harness('s_py_atomic', make_s_py_atomic, kind='S', impls=('py',),
            tiers=dict(quick=dict(budget_s=120, parts=4, ppt=40, params={}), thorough=dict(budget_s=900, parts=4, ppt=60, params={})),
            encoded=_ENC[2:8],
            bounds='the real LookupBaseFallback; one call among lookup / lookup1 / lookupAll / subscriptions with a symbolic key; the uncached '
                   'method calls changed() before and/or after computing under symbolic control and may re-enter the same lookup; symbolic '
                   'answer tables before / after the mutation; optional pre-cached entry with a symbolic (possibly aliasing) key',
            outside='arity > 1; the VerifyingBase generation snapshot (covered by e_reent)',
            oracle='result is the pre- or post-mutation answer; every entry left in any cache equals the post-mutation truth',
            stubs=['_uncached_* as uninterpreted functions of (epoch, key)', 'key objects with symbolic identity and a constant hash']),
]
HARNESSES[0].needs_c = True

MANIFEST = {
    'engine': 'symx',
    'technique': 'symbolic execution (CrossHair engine + z3): (1) solver-enumerated re-entrancy scenarios (entry point x callback point x '
                 'mutation x cache state) executed on both builds in separate processes with a recycled-dictionary witness for writes '
                 'through dangling cache pointers, before/after atomicity oracle and reference-count balance; (2) the pure-Python cache '
                 'layer executed symbolically with changed() injected before/after the uncached computation',
    'text': 'Bounded-exhaustive over the callback points at which foreign code can run inside a lookup crossed with the mutations it can '
            'perform; under the GIL these points are also the only places another thread can be scheduled. Memory corruption is observed '
            'through the recycled-dictionary witness and process death, not proved absent: the C source itself is not encoded (the planned '
            'LLVM-IR executor is described in DESIGN as not built).',
    'note': 'Trusted: CPython dict free-list behaviour for the witness (validated on the unfixed tree: the original use-after-release is '
            'reported); twin registries as the before/after oracle.',
}
