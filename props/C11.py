"""C11 Lookups stay memory-safe and atomic when other code mutates the registry.

Tiers:
  e_reent  - every (flavour, entry point, callback point, mutation, cache temperature) scenario is executed on both
             builds in sibling processes (a crash of the process is a result, not a harness failure): the interrupted
             lookup must answer as before or as after the mutation, the repeated lookup as after, none of the fresh
             dictionaries allocated by the callback may have been written to (CPython recycles a just-released
             dict, so a write through a dangling cache pointer lands there), and reference counts must not grow.
  s_py_atomic - the real pure-Python LookupBase cache layer with an overridden uncached lookup that, under symbolic
             control, calls changed() before/after computing: no answer computed before the mutation survives.
Under the GIL another thread can only run where Python code runs, i.e. at exactly these callback points, so the
scenarios also stand for every GIL schedule of one mutator against a lookup (free-threaded builds: outside).
"""
import json
import os

from vlib.harness import Harness
from vlib.symx import Violation, assume, native, pick, reached
from vlib import traceprog as TP
from props import C10

_SIBS = {}


def _sib(impl, env=None):
    import atexit
    import os
    import subprocess
    import sys
    p = _SIBS.get(impl)
    if p is not None and p.poll() is None:
        return p
    root = os.path.dirname(os.path.dirname(os.path.abspath(__file__)))
    env = dict(env or os.environ)
    env['PYTHONPATH'] = root
    env.pop('PURE_PYTHON', None)
    p = subprocess.Popen([sys.executable, '-X', 'faulthandler', '-m', 'vlib.traceserver', impl], cwd=root, env=env,
                         stdin=subprocess.PIPE, stdout=subprocess.PIPE, stderr=subprocess.DEVNULL, text=True, bufsize=1)
    if 'ready' not in p.stdout.readline():
        raise RuntimeError('trace server did not start')
    _SIBS[impl] = p
    atexit.register(lambda: (p.stdin.close(), p.terminate()))
    return p


def describe(prog):
    return '%s, %s interrupted at %s by %s (%s caches)' % (
        ['AdapterRegistry', 'VerifyingAdapterRegistry'][prog[0]], TP.RE_ENTRY[prog[1]], TP.RE_POINT[prog[2]], TP.RE_MUT[prog[3]],
        TP.RE_WARM[prog[4]])


def scenario(impl, prog, env=None):
    p = _sib(impl, env)
    try:
        p.stdin.write(json.dumps(dict(family='reent', program=prog)) + '\n')
        p.stdin.flush()
        line = p.stdout.readline()
    except (BrokenPipeError, OSError):
        line = ''
    if not line:
        rc = p.poll()
        _SIBS.pop(impl, None)
        raise Violation('%s build: %s: the interpreter died (exit status %s) - memory corruption' % (impl, describe(prog), rc),
                        signature='C11:crash:%s' % TP.RE_POINT[prog[2]])
    r = json.loads(line)
    if 'error' in r:
        raise Violation('%s build: %s: %s' % (impl, describe(prog), r['error']), signature='C11:harness')
    r = r['trace']
    if r is None:
        return False
    what = '%s build: %s' % (impl, describe(prog))
    if r['witness_dirty']:
        raise Violation('%s: a dictionary allocated by the interrupting code after the caches were released was written to: %s '
                        '(store through a dangling cache pointer)' % (what, r['witness_dirty'][:2]),
                        signature='C11:write-through-dangling-cache:%s' % TP.RE_POINT[prog[2]])
    if r['exception'] is not None:
        raise Violation('%s: the lookup raised %s' % (what, r['exception']), signature='C11:exception:%s' % TP.RE_POINT[prog[2]])
    if r['result'] != r['before'] and r['result'] != r['after']:
        raise Violation('%s: answered %r, which is correct neither before (%r) nor after (%r) the mutation' % (
            what, r['result'], r['before'], r['after']), signature='C11:not-atomic')
    if r['second'] != r['after']:
        raise Violation('%s: the same lookup repeated afterwards answers %r, a registry in the mutated state answers %r: an answer '
                        'computed before the mutation survived in the cache' % (what, r['second'], r['after']),
                        signature='C11:stale-answer-survives:%s' % TP.RE_ENTRY[prog[1]])
    if r['refcount_growth'] >= 5:
        raise Violation('%s: reference counts of the operands grew by %d over 20 repetitions (leak)' % (what, r['refcount_growth']),
                        signature='C11:reference-leak:%s' % TP.RE_POINT[prog[2]])
    return True


def both(prog):
    a = scenario('py', prog)
    b = scenario('c', prog)
    return a or b


def make_e_reent(params, part, nparts):
    NE, NP, NM, NW = len(TP.RE_ENTRY), len(TP.RE_POINT), len(TP.RE_MUT), len(TP.RE_WARM)

    def h(fl: int, e: int, p: int, m: int, w: int):
        ce, cp = pick(e, NE), pick(p, NP)
        assume((ce * NP + cp) % nparts == part)
        prog = [pick(fl, 2), ce, cp, pick(m, NM), pick(w, NW)]
        ok = native(both, prog)
        assume(ok)
        reached(tuple(prog), dict(scenario=describe(prog)))
    return h


# ---------------------------------------------------------------------------
# E tier: a mutator thread scheduled at every line boundary of the Python lookup code (vlib.traceprog family 'preempt')
# ---------------------------------------------------------------------------

def preempt_scenario(impl, prog, env=None):
    p = _sib(impl, env)
    what = '%s build, %s: %s interrupted at line event %d by a thread running %s' % (
        impl, ['AdapterRegistry', 'VerifyingAdapterRegistry'][prog[0]], TP.PE_ENTRY[prog[1]], prog[3], TP.PE_MUT[prog[2]])
    try:
        p.stdin.write(json.dumps(dict(family='preempt', program=prog)) + '\n')
        p.stdin.flush()
        line = p.stdout.readline()
    except (BrokenPipeError, OSError):
        line = ''
    if not line:
        rc = p.poll()
        _SIBS.pop(impl, None)
        raise Violation('%s: the interpreter died (exit status %s)' % (what, rc), signature='C11:preempt:crash')
    r = json.loads(line)
    if 'error' in r:
        raise Violation('%s: %s' % (what, r['error']), signature='C11:harness')
    r = r['trace']
    if r is None:
        return False
    what += ' (switch at %s)' % r['where']
    site = r['where'].split(':')[0]
    if r['exception'] is not None:
        raise Violation('%s: the lookup raised %s; before the mutation it answers %r, after it %r' % (what, r['exception'], r['before'], r['after']),
                        signature='C11:preempt:exception:%s:%s' % (site, r['exception'].split(':')[0]))
    if r['result'] != r['before'] and r['result'] != r['after']:
        raise Violation('%s: answered %r, which is correct neither before (%r) nor after (%r) the mutation' % (
            what, r['result'], r['before'], r['after']), signature='C11:preempt:not-atomic:%s' % site)
    if r['second'] != r['after']:
        raise Violation('%s: the same lookup repeated afterwards answers %r, a registry in the mutated state answers %r' % (
            what, r['second'], r['after']), signature='C11:preempt:stale:%s' % site)
    return True


def make_e_preempt(params, part, nparts):
    NE, NM = len(TP.PE_ENTRY), len(TP.PE_MUT)
    K = params.get('K', 120)

    def h(fl: int, e: int, m: int, k: int):
        ce, cm = pick(e, NE), pick(m, NM)
        assume((ce * NM + cm) % nparts == part)
        prog = [pick(fl, 2), ce, cm, pick(k, K)]
        ok = False
        for impl in (('py', 'c') if params.get('impl') == 'both' else (params.get('impl', 'py'),)):
            ok = native(preempt_scenario, impl, prog) or ok
        assume(ok)
        reached(tuple(prog), dict(schedule='%s | %s | k=%d' % (TP.PE_ENTRY[ce], TP.PE_MUT[cm], prog[3])))
    return h


# ---------------------------------------------------------------------------
# E tier: lookups made from inside the change notification of a mutator ("changed() is the last step of every mutator")
# ---------------------------------------------------------------------------

MW_OPS = ["register([IR], P1, '', 'a')", "register([IR], P0, '', 'b')", "unregister([IR], P1, '')", "unregister([IR], P0, '')",
          "subscribe([IR], P1, 's')", "unsubscribe([IR], P1, 's')", "register([IR], P1, 'n', 'c')", 'rebuild()',
          "register([IR, IR], P1, '', 'm')", "subscribe([IR], None, 'h')"]


def run_mutator_window(flavour, ops, watch_sub):
    """Every change notification of the registry runs lookups (all entry points) - on a registry based on it (AdapterRegistry: push) or on
    the registry itself; this is the window any other thread's lookup can also fall into.  When the mutator returns, nothing computed inside the
    window may survive: the registries must answer as registries built afterwards."""
    from zope.interface import Interface
    from zope.interface.adapter import AdapterRegistry, VerifyingAdapterRegistry
    from zope.interface.interface import InterfaceClass
    from vlib import universe as U
    mod = U.fresh_module_name()
    IR = InterfaceClass('IR', (Interface,), __module__=mod)
    P0 = InterfaceClass('P0', (Interface,), __module__=mod)
    P1 = InterfaceClass('P1', (P0,), __module__=mod)
    base_cls = AdapterRegistry if flavour == 0 else VerifyingAdapterRegistry

    def obs(r):
        return [r.lookup((IR,), P0), r.lookup((IR,), P1), r.lookup1(IR, P0), r.lookup((IR,), P0, 'n'), sorted(r.lookupAll((IR,), P0)),
                sorted(r.names((IR,), P1)), list(r.subscriptions((IR,), P0)), list(r.subscriptions((IR,), None)), r.lookup((IR, IR), P0)]

    class Watching(base_cls):
        active = False

        def changed(self, originally_changed):
            super().changed(originally_changed)
            if Watching.active:
                try:
                    obs(self)
                except AttributeError:
                    pass          # __init__ / rebuild() notify before the lookup object exists

    def apply(reg, op):
        if op == 0:
            reg.register([IR], P1, '', 'a')
        elif op == 1:
            reg.register([IR], P0, '', 'b')
        elif op == 2:
            reg.unregister([IR], P1, '')
        elif op == 3:
            reg.unregister([IR], P0, '')
        elif op == 4:
            reg.subscribe([IR], P1, 's')
        elif op == 5:
            reg.unsubscribe([IR], P1, 's')
        elif op == 6:
            reg.register([IR], P1, 'n', 'c')
        elif op == 7:
            reg.rebuild()
        elif op == 8:
            reg.register([IR, IR], P1, '', 'm')
        else:
            reg.subscribe([IR], None, 'h')
    if watch_sub:
        base = base_cls()
        front = Watching((base,))
    else:
        base = front = Watching()
    Watching.active = True
    done = []
    try:
        for op in ops:
            apply(base, op)
            done.append(op)
            Watching.active = False
            got_f, got_b = obs(front), obs(base)
            fb = base_cls()
            ff = base_cls((fb,)) if watch_sub else fb
            for o in done:
                if o != 7:
                    apply(fb, o)
            exp_f, exp_b = obs(ff), obs(fb)
            Watching.active = True
            if got_f != exp_f or got_b != exp_b:
                raise Violation('%s, lookups made from inside every change notification of %s; history [%s]: afterwards the registry answers %r, '
                                'registries built afterwards answer %r (an answer computed while the mutator was still running survived)' % (
                                    base_cls.__name__, 'a registry based on it' if watch_sub else 'the registry itself',
                                    '; '.join(MW_OPS[o] for o in done), got_f if got_f != exp_f else got_b, exp_f if got_f != exp_f else exp_b),
                                signature='C11:mutator-window')
    finally:
        Watching.active = False


def make_e_mutator_window(params, part, nparts):
    L = params.get('L', 3)
    NO = len(MW_OPS)

    def h(fl: int, ws: int, n: int, o1: int, o2: int, o3: int, o4: int):
        c1 = pick(o1, NO)
        assume(c1 % nparts == part)
        flavour, watch_sub = pick(fl, 2), pick(ws, 2)
        assume(not (flavour == 1 and watch_sub))        # verifying registries get no notifications from their bases
        ln = pick(n, L) + 1
        ops = (c1,) + tuple(pick(o, NO) for o in (o2, o3, o4)[:ln - 1])
        reached((flavour, watch_sub, ops), dict(flavour=flavour, watch_sub=watch_sub, history=[MW_OPS[o] for o in ops]))
        native(run_mutator_window, flavour, ops, watch_sub)
    return h


# ---------------------------------------------------------------------------
# S tier: the pure-Python cache layer under symbolic re-entrancy
# ---------------------------------------------------------------------------

def make_s_py_atomic(params, part, nparts):
    from zope.interface.adapter import LookupBaseFallback

    class KeyObj:
        __slots__ = ('k',)

        def __init__(self, k):
            self.k = k

        def __eq__(self, other):
            return isinstance(other, KeyObj) and self.k == other.k

        def __hash__(self):
            return 0

    def h(op: int, k_req: int, k_prov: int, named: int, mutate_before: bool, mutate_after: bool, reenter: bool,
          b0: int, b1: int, b2: int, b3: int, a0: int, a1: int, a2: int, a3: int, c_req: int, c_prov: int, precached: bool):
        c_op = pick(op, 4)
        assume(c_op % nparts == part)
        kr, kp, nm = pick(k_req, 2), pick(k_prov, 2), pick(named, 2)
        B, A = (b0, b1, b2, b3), (a0, a1, a2, a3)           # uncached answers before / after the mutation, per key
        epoch = [0]

        def truth(r, p):
            v = (A if epoch[0] else B)[r * 2 + p]
            return None if v == 0 else ('ans', v)

        class LB(LookupBaseFallback):
            def _answer(self, required, provided):
                if mutate_before and not epoch[0]:
                    epoch[0] = 1
                    self.changed(None)
                    if reenter:                                  # the interrupting code looks the same key up itself
                        self.lookup((KeyObj(kr),), KeyObj(kp), 'n' if nm else '')
                r = truth(required[0].k, provided.k)
                if mutate_after and not epoch[0]:
                    epoch[0] = 1
                    self.changed(None)
                return r

            def _uncached_lookup(self, required, provided, name=''):
                return self._answer(required, provided)

            def _uncached_lookupAll(self, required, provided):
                return ('all', self._answer(required, provided))

            def _uncached_subscriptions(self, required, provided):
                return ('subs', self._answer(required, provided))
        lb = LB()
        cr, cp = pick(c_req, 2), pick(c_prov, 2)
        if precached:      # an unrelated (or the same) key cached in the pre-state, consistent with the pre-mutation truth
            lb._getcache(KeyObj(cp), 'n' if nm else '')[KeyObj(cr)] = truth(cr, cp)
            lb._mcache.setdefault(KeyObj(cp), {})[(KeyObj(cr),)] = ('all', truth(cr, cp))
            lb._scache.setdefault(KeyObj(cp), {})[(KeyObj(cr),)] = ('subs', truth(cr, cp))
        req, prov, name = KeyObj(kr), KeyObj(kp), ('n' if nm else '')
        reached(None, dict(op=c_op, key=(kr, kp, nm), mutate_before=mutate_before, mutate_after=mutate_after))
        before = (B[kr * 2 + kp], A[kr * 2 + kp])
        if c_op == 0:
            got = lb.lookup((req,), prov, name)
            wrap = lambda v: None if v == 0 else ('ans', v)
        elif c_op == 1:
            got = lb.lookup1(req, prov, name)
            wrap = lambda v: None if v == 0 else ('ans', v)
        elif c_op == 2:
            got = lb.lookupAll((req,), prov)
            wrap = lambda v: ('all', None if v == 0 else ('ans', v))
        else:
            got = lb.subscriptions((req,), prov)
            wrap = lambda v: ('subs', None if v == 0 else ('ans', v))
        if got != wrap(before[0]) and got != wrap(before[1]):
            raise Violation('interrupted call answered %r: neither the pre- nor the post-mutation answer' % (got,), signature='C11:py:not-atomic')
        # nothing computed before the mutation survives: every cached entry equals the *current* truth
        for pk, sub in list(lb._cache.items()):
            for k2, v2 in list(sub.items()):
                if isinstance(k2, str):
                    for k3, v3 in list(v2.items()):
                        if v3 != truth(k3.k, pk.k):
                            raise Violation('stale named cache entry survives the mutation', signature='C11:py:stale')
                elif v2 != truth(k2.k, pk.k):
                    raise Violation('stale cache entry survives the mutation', signature='C11:py:stale')
        for cache, tag in ((lb._mcache, 'all'), (lb._scache, 'subs')):
            for pk, sub in list(cache.items()):
                for k2, v2 in list(sub.items()):
                    if v2 != (tag, truth(k2[0].k, pk.k)):
                        raise Violation('stale %s cache entry survives the mutation' % tag, signature='C11:py:stale')
    return h


# ---------------------------------------------------------------------------
# Engine C: symbolic execution of the LLVM IR of the C lookup layer (vlib/irsym.py)
# ---------------------------------------------------------------------------

IR_ENTRY_TO_REENT = {'_lookup': [0, 6], '_lookup1': [1], '_adapter_hook': [2, 3], '_lookupAll': [4, 8], '_subscriptions': [5, 7],
                     '_verify': [0, 1, 4, 5], 'verify_changed': [0, 4]}
IR_API_TO_POINT = {'PyObject_CallMethodObjArgs': [0, 1], 'PySequence_Tuple': [2], 'providedBy': [3], 'PyObject_CallFunctionObjArgs': [4],
                   'PyDict_GetItem': [5, 7, 8], 'PyDict_SetItem': [5, 7, 8], 'PyObject_IsTrue': [7], 'PyObject_GetAttr': [10]}


def ir_candidates(v):
    """Concrete re-entrancy scenarios that exercise the IR path of a finding (used to replay it on the real build)."""
    entries = IR_ENTRY_TO_REENT.get(v['function'], [0])
    points = []
    for line in v.get('trace', []):
        if 'Python code runs in ' in line and 'calls self.changed()' in line:
            api = line.split('Python code runs in ')[1].split(' ')[0]
            points += IR_API_TO_POINT.get(api, [])
    text = v.get('msg', '') + ' '.join(v.get('trace', []))
    if 'str__self__' in text:
        points.append(10)
    if v['function'] in ('_verify', 'verify_changed'):
        points = [12] + points
    if v['kind'] == 'reference-balance':
        points += [11, 9]
    if v['kind'] == 'stale-store':
        points.append(1)
    if v['kind'] == 'shared-static-state':
        points = [0, 1] + points
    if not points:
        points = [0, 1, 11]
    out = []
    for e in entries:
        for p in dict.fromkeys(points):
            for m in range(len(TP.RE_MUT)):
                for w in range(len(TP.RE_WARM)):
                    for fl in (0, 1):
                        out.append([fl, e, p, m, w])
    return out


def run_ir(tier, ctx):
    import os
    import shutil
    import subprocess
    import time
    from concurrent.futures import ThreadPoolExecutor
    from vlib import irsym
    t0 = time.time()
    agg = dict(harness='ir_lookup', impl='c', kind='IR', paths=0, reached=0, distinct=0, unknown=0, solver_queries=0, solver_s=0.0,
               samples=[], errors=[], exhaustive=False, jobs=[])
    out = dict(agg=agg, violations=[], harness_errors=[], replays_attempted=0, replays_reproduced=0)
    try:
        text, wd = irsym.build_ir()
    except Exception as e:
        out['harness_errors'].append('ir_lookup: cannot produce the IR: %s' % e)
        return out
    try:
        irfile = os.path.join(wd, 'zic.m2r.ll')
        funcs = irsym.parse(text)
        missing = [f for f in list(irsym.TARGETS) + ['LB_clear', '_getcache', '_subcache', 'VB_clear', '_generations_tuple'] if f not in funcs]
        if missing:
            out['harness_errors'].append('ir_lookup: functions not found in the IR (renamed?): %s' % missing)
            return out
        quick = tier != 'thorough'
        budget = 170 if quick else 1500
        jobs = []
        for entry in ('_lookup', '_lookup1', '_lookupAll', '_subscriptions'):
            jobs.append((entry, 0, 2, '-'))
            jobs.append((entry, 1, 1, '-'))
        D = 8
        for bits in range(1 << D):
            pfx = format(bits, '0%db' % D)
            jobs.append(('_adapter_hook', 0, 2, pfx))
            if not quick:
                jobs.append(('_adapter_hook', 1, 1, pfx))
        # VerifyingBase: loops over the resolution order unrolled for lengths 0..2; a nested changed() is the havoc
        jobs.append(('_verify', 0, 2, '-'))
        jobs.append(('_verify', 1, 1, '-'))
        jobs.append(('verify_changed', 0, 2, '-'))
        for bits in range(1 << 6):
            jobs.append(('verify_changed', 1, 1, format(bits, '06b')))

        def run_job(job):
            entry, exotic, mh, pfx = job
            r = subprocess.run([ctx['py'], '-m', 'vlib.irsym', irfile, entry, str(exotic), str(mh), str(budget), pfx],
                               cwd=ctx['root'], env=ctx['env'], capture_output=True, text=True, timeout=budget * 2 + 120)
            for line in r.stdout.splitlines():
                if line.startswith('IRJSON '):
                    return job, json.loads(line[7:])
            return job, dict(fatal=(r.stderr or r.stdout)[-800:])
        with ThreadPoolExecutor(max_workers=ctx['ncpu']) as ex:
            results = list(ex.map(run_job, jobs))
        all_exh = True
        found = []
        for job, st in results:
            if st.get('fatal'):
                out['harness_errors'].append('ir_lookup %r: worker failed: %s' % (job, st['fatal'][-300:]))
                all_exh = False
                continue
            agg['paths'] += st['paths']
            agg['solver_queries'] += st['queries']
            agg['solver_s'] += st['solver_s']
            agg['unknown'] += st.get('n_inconclusive', 0)
            all_exh = all_exh and bool(st.get('exhausted')) and not st.get('n_inconclusive')
            agg['jobs'].append(dict(entry=job[0], exotic_callbacks=bool(job[1]), max_havocs=job[2], shard=job[3], paths=st['paths'],
                                    exhausted=st.get('exhausted'), inconclusive=st.get('n_inconclusive', 0)))
            for inc in st.get('inconclusive', [])[:2]:
                agg['errors'].append('inconclusive: %s' % inc['reason'][:200])
            for v in st['violations']:
                if v['kind'] == 'snapshot':
                    continue              # functional contract of the generation snapshot: decided by C10 ir_snapshot
                if not any(x['kind'] == v['kind'] and x['msg'] == v['msg'] for x in found):
                    found.append(v)
        agg['reached'] = agg['distinct'] = agg['paths']
        agg['exhaustive'] = all_exh
        agg['solver_s'] = round(agg['solver_s'], 2)
        agg['stubs'] = dict(irsym.STUB_DOC)
        agg['samples'] = [dict(job=j['entry'], shard=j['shard'], paths=j['paths']) for j in agg['jobs'][:4]]
        # every IR finding is replayed on the real C build through the re-entrancy scenarios that exercise its path
        for k, v in enumerate(found[:6]):
            out['replays_attempted'] += 1
            hit = None
            for prog in ir_candidates(v):
                try:
                    scenario('c', prog, ctx['env'])
                except Violation as e:
                    hit = (prog, e)
                    break
            what = 'IR path in %s: %s: %s' % (v['function'], v['kind'], v['msg'][:300])
            if hit is None:
                out['harness_errors'].append('ir_lookup: %s - NOT reproduced by any concrete scenario on the real build (reported '
                                             'separately, inconclusive); trace: %s' % (what, ' | '.join(v['trace'][-6:])[:600]))
                continue
            out['replays_reproduced'] += 1
            rpath = os.path.join(ctx['evdir'], 'replays', 'C11-ir_lookup-%d.json' % k)
            os.makedirs(os.path.dirname(rpath), exist_ok=True)
            with open(rpath, 'w') as f:
                json.dump(dict(property='C11', harness='e_reent', impl='py', params={},
                               args=dict(fl=hit[0][0], e=hit[0][1], p=hit[0][2], m=hit[0][3], w=hit[0][4]),
                               ir_finding=dict(function=v['function'], kind=v['kind'], msg=v['msg'], trace=v['trace'][-25:]),
                               msg=hit[1].msg, signature=hit[1].signature), f, indent=1)
            out['violations'].append(dict(harness='ir_lookup', impl='c', msg='%s; reproduced on the real build: %s' % (what, hit[1].msg[:400]),
                                          signature='C11:ir:%s:%s' % (v['kind'], v['function']), replay=rpath))
    finally:
        shutil.rmtree(wd, ignore_errors=True)
    agg['cpu_s'] = round(time.time() - t0, 1)
    return out


_ENC = ['zope.interface._zope_interface_coptimizations:LookupBase', 'zope.interface._zope_interface_coptimizations:VerifyingBase',
        'zope.interface.adapter:LookupBaseFallback.lookup', 'zope.interface.adapter:LookupBaseFallback.lookup1',
        'zope.interface.adapter:LookupBaseFallback.adapter_hook', 'zope.interface.adapter:LookupBaseFallback.lookupAll',
        'zope.interface.adapter:LookupBaseFallback.subscriptions', 'zope.interface.adapter:LookupBaseFallback.changed',
        'zope.interface.adapter:VerifyingBaseFallback._verify', 'zope.interface.adapter:VerifyingBaseFallback.changed',
        'zope.interface.adapter:AdapterLookupBase._uncached_lookup', 'zope.interface.adapter:BaseAdapterRegistry.changed']

HARNESSES = [
    Harness('e_reent', make_e_reent, kind='E', impls=('py',),
            tiers=dict(quick=dict(budget_s=200, parts=16, params={}), thorough=dict(budget_s=1200, parts=16, params={})),
            encoded=_ENC,
            bounds='2 registry flavours x 9 entry points (lookup, lookup1, queryAdapter, adapter_hook, lookupAll, names, subscriptions, '
                   'queryMultiAdapter, subscribers) x 14 callback points (overridden _uncached_* before / after computing, lazy `required` '
                   'sequence, __providedBy__ descriptor, factory, __hash__ of the provided key, __hash__ of a str-subclass name, __eq__ of a '
                   'required key, destructor of a cached value run while the caches are released, destructor of a replaced factory repeating the lookup from inside changed(), unhashable-provided and raising-uncached error paths, a super subclass computing __self__, a base registry computing _generation) x 6 '
                   'mutations (more specific registration, unregistration, subscription, changed() alone, registry __bases__, registration + '
                   're-entrant lookup) x 3 cache temperatures; both builds, each in its own process',
            outside='free-threaded (no-GIL) builds; allocation failure; more than one interruption per call; crashes inside CPython itself',
            oracle='answer in {before, after} from uninterrupted twin registries; repeated call == after; no write into the dictionaries '
                   'allocated after the caches were released; refcount growth < 5 over 20 repetitions; process survives',
            stubs=['sibling processes for both builds', 'hooked LookupClass / lazy sequence / descriptor / factory / key objects as callback carriers']),
    Harness('e_mutator_window', make_e_mutator_window, kind='E', impls=('py', 'c'),
            tiers=dict(quick=dict(budget_s=120, parts=10, params=dict(L=3)), thorough=dict(budget_s=900, parts=10, params=dict(L=4))),
            encoded=['zope.interface.adapter:BaseAdapterRegistry.register', 'zope.interface.adapter:BaseAdapterRegistry.unregister',
                     'zope.interface.adapter:BaseAdapterRegistry.subscribe', 'zope.interface.adapter:BaseAdapterRegistry.unsubscribe',
                     'zope.interface.adapter:BaseAdapterRegistry.rebuild', 'zope.interface.adapter:BaseAdapterRegistry.changed',
                     'zope.interface.adapter:AdapterLookupBase.add_extendor', 'zope.interface.adapter:AdapterLookupBase.remove_extendor'],
            bounds='both registry flavours; every history of <=3 (thorough 4) mutators from 10 (first / further registrations for related provided '
                   'interfaces, unregistrations incl. the last one, subscriptions, a handler, a multi-adapter, rebuild()); during every change '
                   'notification 9 lookups run on the registry itself or (AdapterRegistry) on a registry based on it; compared after every mutator',
            outside='notifications observed from other threads at finer grain than the changed() hook (the hook is the only point at which the '
                    'mutators call out)',
            oracle='registries built afterwards with the same registrations and no earlier lookups'),
    Harness('e_preempt', make_e_preempt, kind='E', impls=('py',),
            tiers=dict(quick=dict(budget_s=150, parts=14, params=dict(K=120, impl='py')), thorough=dict(budget_s=900, parts=14, params=dict(K=160, impl='both'))),
            encoded=['zope.interface.adapter:AdapterLookupBase._uncached_lookup', 'zope.interface.adapter:AdapterLookupBase._uncached_lookupAll',
                     'zope.interface.adapter:AdapterLookupBase._uncached_subscriptions', 'zope.interface.adapter:_lookup',
                     'zope.interface.adapter:_lookupAll', 'zope.interface.adapter:_subscriptions',
                     'zope.interface.adapter:AdapterLookupBase.remove_extendor', 'zope.interface.adapter:AdapterLookupBase.add_extendor',
                     'zope.interface.adapter:BaseAdapterRegistry.unregister', 'zope.interface.adapter:BaseAdapterRegistry.unsubscribe'],
            bounds='thread schedules of one lookup thread against one mutator thread under the GIL: the lookup (7 entry/key shapes of arity 1 and 2, both '
                   'registry flavours) runs to its k-th line event inside zope/interface/adapter.py (every k up to the end of the call, <= 120), '
                   'the mutator then runs one whole mutator call (9 kinds: the last registration / subscription of an arity or of a provided '
                   'interface, a more specific registration, the answering registration, ...), the lookup resumes; quick: pure-Python build, thorough: both builds (the uncached lookups are Python in both, the cache layer differs)',
            outside='switches inside the mutator (two half-done mutators); more than one switch per lookup; bytecode boundaries inside one line; '
                    'the C cache layer (covered at its callback points by e_reent / ir_lookup)',
            oracle='no exception; the answer is the one before or the one after the mutation (twin registries); the repeated call gives the after-answer',
            stubs=['sys.settrace line events as the schedule: the mutator runs inside the trace callback of the k-th line']),
    Harness('s_py_atomic', make_s_py_atomic, kind='S', impls=('py',),
            tiers=dict(quick=dict(budget_s=120, parts=4, ppt=40, params={}), thorough=dict(budget_s=900, parts=4, ppt=60, params={})),
            encoded=_ENC[2:8],
            bounds='the real LookupBaseFallback; one call among lookup / lookup1 / lookupAll / subscriptions with a symbolic key; the uncached '
                   'method calls changed() before and/or after computing under symbolic control and may re-enter the same lookup; symbolic '
                   'answer tables before / after the mutation; optional pre-cached entry with a symbolic (possibly aliasing) key',
            outside='arity > 1; the VerifyingBase generation snapshot (covered by e_reent)',
            oracle='result is the pre- or post-mutation answer; every entry left in any cache equals the post-mutation truth',
            stubs=['_uncached_* as uninterpreted functions of (epoch, key)', 'key objects with symbolic identity and a constant hash']),
    Harness('ir_lookup', kind='custom', impls=('c',), run=run_ir,
            tiers=dict(quick=dict(), thorough=dict()),
            encoded=['zope.interface._zope_interface_coptimizations:LookupBase'],
            bounds='LLVM IR (clang-14 -O0 + mem2reg) of the current _zope_interface_coptimizations.c: VerifyingBase _verify / verify_changed (loops over the '
                   'resolution order unrolled for lengths 0..2, nested changed() as havoc), and _lookup, _lookup1, _lookupAll, _subscriptions '
                   '(every path, with always-Python callbacks <=2 havocs and, separately, with exotic callbacks - key __hash__/__eq__, __bool__ of '
                   'a str subclass - <=1 havoc) and _adapter_hook (quick: always-Python callbacks; thorough: both), helpers _getcache / _subcache / '
                   'LB_clear inlined; reference counts as z3 terms with an unknown number of external holders; no loops occur',
            outside='resolution orders longer than 2 in the VerifyingBase loops; the internal outcomes of a *nested* changed() other than completes / fails after releasing (its two possible effects on the caller\'s heap); allocation failure '
                    '(PyDict_New/PyTuple_New assumed non-NULL); destructors of unknown cached values; the CPython API implementation itself',
            oracle='monitors M5 (no write to static storage: the lookups must be re-entrant), M1 (no use of an object whose reference count can be 0), M2 (frame reference balance at every return), M3 (no '
                   'value answered before a havoc-changed() stored into a dictionary reachable from self); findings are replayed on the real build',
            stubs=['C-API contract stubs (listed in the evidence file under per_harness.stubs)', 'havoc = the real LB_clear IR executed at every call that may run Python']),
]
for _x in HARNESSES:
    _x.needs_c = True

for _k in HARNESSES:
    if _k.name in ('s_py_atomic',):
        _k.stub_kernel = True      # drives private functions / extension points with stub containers (see vlib.runner)

MANIFEST = {
    'engine': 'symx+irsym',
    'technique': 'symbolic execution: (1) Engine C - the LLVM IR of the current C lookup layer executed with reference counts as z3 terms '
                 '(unknown external holders), C-API contract stubs and havoc (the real LB_clear IR) at every call that may run Python; '
                 'monitors: use of an object whose count can be 0, frame reference balance, stale store; every finding replayed on the real '
                 'build; (2) solver-enumerated re-entrancy scenarios executed on both builds in separate processes (dangling-write '
                 'witness, before/after atomicity, reference-count growth, process death); (3) the pure-Python cache layer executed '
                 'symbolically (CrossHair engine) with changed() injected before/after the uncached computation; (4) thread schedules of a '
                 'lookup thread against a mutator thread over the Python lookup code: the mutator runs at the k-th line boundary, k a '
                 'solver-enumerated schedule variable covering every boundary of the call',
    'text': 'Engine C decides, for every path of _lookup/_lookup1/_lookupAll/_subscriptions/_adapter_hook (helpers inlined) and every '
            'callback point on it, whether an object can be used after its last reference was dropped, whether the frame leaks or '
            'over-releases, and whether a pre-mutation answer can reach a live cache - for any number of unseen external references. The '
            'scenario tier covers what the IR tier leaves out (VerifyingBase, destructors) by bounded enumeration, and supplies the '
            'concrete replays. Under the GIL the callback points are also the only places another thread can run.',
    'note': 'Trusted: the C-API contract stubs (evidence lists them) and CPython\'s dict free-list behaviour for the concrete witness. '
            'Loops (VerifyingBase) are not unrolled: outside the IR tier.',
}
