"""C06 Registries consult exactly their current base chain, in resolution order."""
from vlib.harness import Harness
from vlib.symx import Violation, assume, native, pick, reached
from vlib import regmodel as M
from vlib import regprog as RP

NREG = 4


def alphabet():
    ops = []
    for b in [(), (1,), (2,), (3,), (1, 2), (2, 1), (1, 3), (2, 3)]:
        ops.append(('setbases', 0, b))
    for b in [(), (2,), (3,), (2, 3), (3, 2)]:
        ops.append(('setbases', 1, b))
    for b in [(), (3,)]:
        ops.append(('setbases', 2, b))
    for k in range(NREG):
        # the front registry's value is false in a boolean context (an empty container is a legitimate utility / adapter)
        ops.append(('register', k, (2,), 0, '', ('FALSY', 'v0') if k == 0 else 'v%d' % k))        # required R1
    for k in range(1, NREG):
        ops.append(('register', k, (1,), 1, 'n', 'w%d' % k))       # required R0, provided P1, named
        ops.append(('subscribe', k, (2,), 0, '', 's%d' % k))
    ops.append(('unregister', 3, (2,), 0, '', None))
    for k in (1, 2, 3):
        ops.append(('rebuild', k))      # BaseAdapterRegistry.rebuild() of a registry others are based on
    return ops


OBS = dict(arities=(1,), names=('', 'n'), provided_idx=[0, 1])


def _obs(u):
    return {ri: M.observe(u, ri, objects=False, **OBS) for ri in range(len(u.regs))}


def _c3(i, bases):
    try:
        return M.c3(i, bases)
    except ValueError:     # no C3 order exists for these base lists: ro is then unspecified
        return None


def run_history(flavour, ops, via_components=False):
    # which intermediate states are looked at is part of the history (a lookup re-validates a verifying
    # registry's snapshot): every subset of intermediate observation points is run, the final state always
    for mask in range(1 << max(0, len(ops) - 1)):
        for warm in ((True, False) if mask == 0 else (True,)):
            _run_history(flavour, ops, mask, warm)


def _run_history(flavour, ops, mask, warm):
    u = M.RegUniverse(flavour=flavour, nregs=NREG)         # initial chain 0 -> 1 -> 2 -> 3
    model = M.Model(NREG)
    if warm:
        _obs(u)
    for k, op in enumerate(ops):
        RP.apply_op(u, model, op)
        if k < len(ops) - 1 and not (mask >> k) & 1:
            continue
        got = _obs(u)
        # oracle: a freshly constructed chain with the current __bases__ and the current registrations
        fresh = M.RegUniverse(flavour=flavour, nregs=NREG, bases=dict(u.reg_bases))
        fm = M.Model(NREG)
        for o in ops[:k + 1]:
            if o[0] not in ('setbases', 'rebuild'):
                RP.apply_op(fresh, fm, o)
        exp = _obs(fresh)
        d = RP.diff(got, exp)
        if d:
            ri, key, g, e = d
            stale = None
            for rj in range(NREG):
                order = _c3(rj, u.reg_bases)
                if order is not None and list(u.regs[rj].ro) != [u.regs[x] for x in order]:
                    stale = rj
            sig = ('C06:stale-ro-below-rebased-registry:%s' % flavour) if stale is not None else 'C06:answers-differ:%s' % flavour
            raise Violation('%s chain 0->1->2->3, history [%s] (lookups after steps %s%s): reg%d %r = %r, a freshly built chain with the same __bases__ and '
                            'registrations answers %r%s' % (flavour, RP.fmt(ops[:k + 1]), [j + 1 for j in range(k) if (mask >> j) & 1] + [k + 1],
                                                           '' if warm else ', none before the first step', ri, key, g, e,
                                                           '' if stale is None else ' (reg%d.ro is not the C3 order of its current bases)' % stale),
                            signature=sig)
        # "nearest first" holds for every collector: per name lookupAll must give what lookup gives
        for rj in got:
            for key, val in got[rj].items():
                if key[0] == 'lookupAll':
                    for (nm, tag) in val:
                        one = got[rj].get(('lookup', key[1], key[2], nm))
                        if one != tag:
                            raise Violation('%s history [%s]: reg%d.lookupAll%r maps %r to %r, lookup gives %r (nearest registry first)' % (
                                flavour, RP.fmt(ops[:k + 1]), rj, key[1:], nm, tag, one), signature='C06:lookupAll-order:%s' % flavour)
        for rj in range(NREG):
            order = _c3(rj, u.reg_bases)
            if order is not None and list(u.regs[rj].ro) != [u.regs[x] for x in order]:
                raise Violation('%s history [%s]: reg%d.ro is %s, C3 order of the current bases is %s' % (
                    flavour, RP.fmt(ops[:k + 1]), rj, [u.regs.index(x) for x in u.regs[rj].ro], order),
                    signature='C06:stale-ro-below-rebased-registry:%s' % flavour)


def make_e_chain(params, part, nparts):
    alpha = alphabet()
    L = params['L']
    flavour = params['flavour']
    NA = len(alpha)

    def h(n: int, o1: int, o2: int, o3: int):
        c1 = pick(o1, NA)
        assume(c1 % nparts == part)
        ln = pick(n, L) + 1
        idx = [c1] + [pick(o, NA) for o in (o2, o3)[:ln - 1]]
        ops = tuple(alpha[i] for i in idx)
        reached(tuple(idx), dict(flavour=flavour, history=RP.fmt(ops)))
        native(run_history, flavour, ops)
    return h


def run_components(ops):
    """The same through Components.__bases__ (maps onto both underlying registries)."""
    from zope.interface import Interface, implementer
    from zope.interface.registry import Components
    from vlib import universe as U
    mod = U.fresh_module_name()
    (IU, IR, IP) = U.build_ifaces(((), (), ()), prefix='IU', module=mod)

    @implementer(IR)
    class Ob:
        pass
    ob = Ob()
    facs = [type('F%d' % i, (object,), {'__init__': lambda self, o: None}) for i in range(3)]
    comps = [Components('c%d' % i) for i in range(3)]
    comps[1].__bases__ = (comps[2],)
    comps[0].__bases__ = (comps[1],)
    bases = {0: (1,), 1: (2,), 2: ()}
    utils, adapters = {}, {}
    for k, op in enumerate(ops):
        if op[0] == 'setbases':
            comps[op[1]].__bases__ = tuple(comps[j] for j in op[2])
            bases[op[1]] = op[2]
        elif op[0] == 'util':
            utils[op[1]] = 'u%d' % op[1]
            comps[op[1]].registerUtility('u%d' % op[1], IU)
        elif op[0] == 'adapter':
            adapters[op[1]] = facs[op[1]]
            comps[op[1]].registerAdapter(facs[op[1]], (IR,), IP)
        else:
            # Components.__init__ "is used for test cleanup as well as initialization": re-initialising the front component
            # (nothing is based on it) drops its own registrations and gives it the bases passed, possibly the ones it had
            i = op[1]
            nb = bases[i] if op[2] == 'same' else op[2]
            comps[i].__init__('c%d' % i, tuple(comps[j] for j in nb))
            bases[i] = tuple(nb)
            utils.pop(i, None)
            adapters.pop(i, None)
        hist = ops[:k + 1]
        for i in range(3):
            if tuple(comps[i].__bases__) != tuple(comps[j] for j in bases[i]):
                raise Violation('Components history %r: c%d.__bases__ is %r' % (hist, i, comps[i].__bases__), signature='C06:components:bases')
            for which in ('adapters', 'utilities'):
                got = tuple(getattr(comps[i], which).__bases__)
                exp = tuple(getattr(comps[j], which) for j in bases[i])
                if len(got) != len(exp) or any(a is not b for a, b in zip(got, exp)):
                    raise Violation('Components history %r: c%d.%s.__bases__ does not mirror c%d.__bases__ = %r' % (
                        hist, i, which, i, bases[i]), signature='C06:components:registry-bases')
            order = M.c3(i, bases)
            exp = exp_a = None
            for j in order:
                if j in utils and exp is None:
                    exp = utils[j]
                if j in adapters and exp_a is None:
                    exp_a = adapters[j]
            got = comps[i].queryUtility(IU)
            if got != exp:
                raise Violation('Components history %r: c%d.queryUtility gives %r, nearest registration along the current bases is %r' % (
                    hist, i, got, exp), signature='C06:stale-ro-below-rebased-registry:components')
            got = comps[i].adapters.lookup((IR,), IP)
            if got is not exp_a:
                raise Violation('Components history %r: c%d.adapters.lookup gives %r, nearest registration along the current bases is %r' % (
                    hist, i, got, exp_a), signature='C06:stale-ro-below-rebased-registry:components')
            got = comps[i].queryAdapter(ob, IP)
            if (got is None) != (exp_a is None) or (got is not None and type(got) is not exp_a):
                raise Violation('Components history %r: c%d.queryAdapter gives %r, nearest factory along the current bases is %r' % (
                    hist, i, got, exp_a), signature='C06:stale-ro-below-rebased-registry:components')


def make_e_components(params, part, nparts):
    alpha = [('setbases', 0, ()), ('setbases', 0, (1,)), ('setbases', 0, (2,)), ('setbases', 0, (1, 2)), ('setbases', 1, ()), ('setbases', 1, (2,)),
             ('util', 0), ('util', 1), ('util', 2), ('adapter', 0), ('adapter', 1), ('adapter', 2),
             ('reinit', 0, 'same'), ('reinit', 0, ()), ('reinit', 0, (2,))]
    NA = len(alpha)

    def h(o1: int, o2: int, o3: int, n: int):
        c1 = pick(o1, NA)
        assume(c1 % nparts == part)
        ln = pick(n, 3) + 1
        idx = [c1] + [pick(o, NA) for o in (o2, o3)[:ln - 1]]
        ops = tuple(alpha[i] for i in idx)
        reached(tuple(idx), dict(history=[list(map(str, o)) for o in ops]))
        native(run_components, ops)
    return h


GEN_OPS = ['register x', 'register y', 'unregister x', 'unregister y', 'subscribe s', 'rebuild']


def run_generation(a_ops, b_ops, depth):
    """Verifying chain reg0 -> ... -> reg(depth): ops A on the last registry, one lookup from reg0 (its snapshot records the generations),
    ops B on the last registry with no lookup in between, then every entry point of reg0 against a chain built afterwards.  A generation
    value that comes back after the content changed would make the snapshot look current."""
    from zope.interface import Interface
    from zope.interface.adapter import VerifyingAdapterRegistry
    from zope.interface.interface import InterfaceClass
    mod = U_fresh()
    IR, IP, IQ = [InterfaceClass(n, (Interface,), __module__=mod) for n in ('IR', 'IP', 'IQ')]

    def chain():
        regs = [VerifyingAdapterRegistry()]
        for _ in range(depth):
            regs.insert(0, VerifyingAdapterRegistry((regs[0],)))
        return regs

    def apply(reg, op):
        if op == 0:
            reg.register([IR], IP, '', 'x')
        elif op == 1:
            reg.register([IR], IQ, '', 'y')
        elif op == 2:
            reg.unregister([IR], IP, '')
        elif op == 3:
            reg.unregister([IR], IQ, '')
        elif op == 4:
            reg.subscribe([IR], IP, 's')
        else:
            reg.rebuild()

    def obs(r):
        return [r.lookup((IR,), IP), r.lookup1(IR, IQ), sorted(r.lookupAll((IR,), IP)), list(r.subscriptions((IR,), IP)),
                r.lookup((IR,), IQ, '', 'dflt')]
    regs = chain()
    for op in a_ops:
        apply(regs[-1], op)
    obs(regs[0])
    for op in b_ops:
        apply(regs[-1], op)
    got = obs(regs[0])
    fresh = chain()
    for op in tuple(a_ops) + tuple(b_ops):
        if op != 5:
            apply(fresh[-1], op)
    exp = obs(fresh[0])
    if got != exp:
        raise Violation('verifying chain of %d registries: [%s] on the last one, lookups from the first, then [%s] on the last one with no lookup in '
                        'between: the first registry answers %r, a chain built afterwards answers %r' % (
                            depth + 1, ', '.join(GEN_OPS[o] for o in a_ops), ', '.join(GEN_OPS[o] for o in b_ops), got, exp),
                        signature='C06:answers-differ:verifying')


def U_fresh():
    from vlib import universe as U
    return U.fresh_module_name()


def make_e_generation(params, part, nparts):
    NA, NB = params.get('na', 2), params.get('nb', 4)
    NO = len(GEN_OPS)

    def h(la: int, lb: int, d: int, a1: int, a2: int, b1: int, b2: int, b3: int, b4: int, b5: int):
        cb1 = pick(b1, NO)
        assume(cb1 % nparts == part)
        na = pick(la, NA + 1)
        nb = pick(lb, NB) + 1
        a_ops = tuple(pick(o, NO) for o in (a1, a2)[:na])
        b_ops = (cb1,) + tuple(pick(o, NO) for o in (b2, b3, b4, b5)[:nb - 1])
        depth = pick(d, 2) + 1
        reached((a_ops, b_ops, depth), dict(a=[GEN_OPS[o] for o in a_ops], b=[GEN_OPS[o] for o in b_ops], depth=depth))
        native(run_generation, a_ops, b_ops, depth)
    return h


_ENC = ['zope.interface.adapter:BaseAdapterRegistry._setBases', 'zope.interface.adapter:AdapterRegistry._setBases',
        'zope.interface.adapter:AdapterRegistry.changed', 'zope.interface.adapter:AdapterRegistry._addSubregistry',
        'zope.interface.adapter:VerifyingBaseFallback.changed', 'zope.interface.adapter:VerifyingBaseFallback._verify',
        'zope.interface.adapter:AdapterLookupBase._uncached_lookup', 'zope.interface.adapter:AdapterLookupBase._uncached_lookupAll',
        'zope.interface.adapter:AdapterLookupBase._uncached_subscriptions', 'zope.interface.registry:Components._setBases',
        'zope.interface._zope_interface_coptimizations:VerifyingBase']


def _tiers(flavour):
    return dict(quick=dict(budget_s=100, parts=8, params=dict(L=2, flavour=flavour)),
                thorough=dict(budget_s=1800, parts=16, params=dict(L=3, flavour=flavour)))


HARNESSES = [
    Harness('e_chain_adapter', make_e_chain, kind='E', impls=('py', 'c'), tiers=_tiers('adapter'), encoded=_ENC,
            bounds='4 AdapterRegistry objects, initial chain 0->1->2->3; every history of <=2 (thorough 3) ops from 29: __bases__ of '
                   'registry 0/1/2 := ordered subset of higher registries (acyclic), register/subscribe/unregister in any member, rebuild() of a registry others are based on; after '
                   'every op lookup, lookup1, lookupAll, names, subscriptions, handlers for all arity-1 keys from every registry, and .ro',
            outside='cyclic registry __bases__; more than 4 registries; histories longer than the bound',
            oracle='a freshly constructed chain with the same current __bases__ and registrations; ro == independent C3 over the current bases'),
    Harness('e_chain_verifying', make_e_chain, kind='E', impls=('py', 'c'), tiers=_tiers('verifying'), encoded=_ENC,
            bounds='as e_chain_adapter for VerifyingAdapterRegistry (generation checking, no notifications)', oracle='as e_chain_adapter'),
    Harness('e_components', make_e_components, kind='E', impls=('py',),
            tiers=dict(quick=dict(budget_s=90, parts=5), thorough=dict(budget_s=300, parts=5)), encoded=_ENC + ['zope.interface.registry:Components.__init__'],
            bounds='3 Components objects, chain; every history of <=3 ops from 15: Components.__bases__ reassignments (incl. two bases), '
                   'registerUtility / registerAdapter in any, re-initialisation (Components.__init__, documented for test cleanup) of the front '
                   'component with the same, no, or other bases; after every op bases of both underlying registries mirror the component '
                   'bases and queryUtility / adapters.lookup / queryAdapter find the nearest registration',
            outside='re-initialising a component other components are based on (their registries keep the old base registries)',
            oracle='nearest registration along the C3 order of the current bases'),
    Harness('e_generation', make_e_generation, kind='E', impls=('py', 'c'),
            tiers=dict(quick=dict(budget_s=120, parts=12, params=dict(na=1, nb=4)), thorough=dict(budget_s=1500, parts=12, params=dict(na=2, nb=5))),
            encoded=_ENC + ['zope.interface.adapter:BaseAdapterRegistry.rebuild', 'zope.interface.adapter:BaseAdapterRegistry.__init__',
                            'zope.interface.adapter:BaseAdapterRegistry.changed'],
            bounds='verifying chains of 2 and 3 registries; <=1 (thorough 2) operations on the last registry, one round of lookups from the first, then 1..4 '
                   '(thorough 5) operations on the last registry with no lookup in between, from {register x, register y, unregister x, '
                   'unregister y, subscribe, rebuild()}; 5 entry points of the first registry',
            outside='longer silent stretches; operations on several registries between two lookups (e_chain_verifying)',
            oracle='a chain built afterwards with the same registrations (generation values must never come back after the content changed)'),
]

MANIFEST = {
    'engine': 'symx',
    'technique': 'symbolic execution (CrossHair engine + z3) over solver-enumerated re-basing/registration histories on real registry '
                 'chains of both flavours and builds; oracle: freshly built chain + independent C3',
    'text': 'Bounded-exhaustive over all histories of registry __bases__ reassignments (any level) and registrations up to the length '
            'bound on a 4-registry chain; after each step every lookup from every registry must agree with a freshly constructed chain.',
    'note': 'Trusted: fresh chains answer correctly (C04); acyclic registry graphs only.',
}
